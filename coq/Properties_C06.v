(* Properties_C06.v — C06: only the library's own, still-unreaped child is signalled or reaped.
   Theorems only. *)
From Verif Require Import Lib WorldSpec WorldSpec2 LibSpec WaitSpec ParentSpec StartSpec FdSpec HeapSpec MemSpec.
From Coq Require Import Lia.
Local Open Scope Z_scope.

(* Every system call made by terminate / kill / wait / stop / destroy on a handle is one of:
   kill(handle's pid, SIGTERM|SIGKILL), waitpid(handle's pid), close of a descriptor the handle
   owns, poll on the handle's exit pipe, the clock, scratch calloc/free — in every outcome
   (return, hang, crash) and for every world: any fault plan, latency plan, child behaviour. *)
Theorem C06_terminate_targets : forall p, emits (reproc_terminate p) (api_ev p).
Proof. exact emits_reproc_terminate. Qed.
Print Assumptions C06_terminate_targets.
Theorem C06_kill_targets : forall p, emits (reproc_kill p) (api_ev p).
Proof. exact emits_reproc_kill. Qed.
Print Assumptions C06_kill_targets.
Theorem C06_wait_targets : forall p t, emits (reproc_wait p t) (api_ev p).
Proof. intros p t. eapply emits_of_emitsR. apply emitsR_reproc_wait. Qed.
Print Assumptions C06_wait_targets.
Theorem C06_stop_targets : forall p a, emits (reproc_stop p a) (api_ev p).
Proof. intros p a. eapply emits_of_emitsR. apply emitsR_reproc_stop. Qed.
Print Assumptions C06_stop_targets.
Theorem C06_destroy_targets : forall p, emits (reproc_destroy p) (api_ev p).
Proof. exact emits_reproc_destroy. Qed.
Print Assumptions C06_destroy_targets.

(* in particular: a kill or waitpid event always names the pid stored in the handle and the
   signal is SIGTERM or SIGKILL *)
Corollary C06_signal_shape : forall p e, api_ev p e -> e_call e = CKill ->
  e_args e = [h_handle p; 15] \/ e_args e = [h_handle p; 9].
Proof.
  intros p e [H|[H|[H|[H|[H|[H|H]]]]]] Hk; try (destruct H as [Hc _]; congruence); try congruence.
  destruct H as [_ H]. exact H.
Qed.
Print Assumptions C06_signal_shape.
Corollary C06_reap_shape : forall p e, api_ev p e -> e_call e = CWaitpid -> e_args e = [h_handle p].
Proof.
  intros p e [H|[H|[H|[H|[H|[H|H]]]]]] Hk; try (destruct H as [Hc _]; congruence); try congruence.
  destruct H as [_ H]. exact H.
Qed.
Print Assumptions C06_reap_shape.

(* after a successful wait: terminate and kill succeed without sending anything, wait does not reap again *)
Theorem C06_noop_after_reap : forall p w, 0 <= h_status p ->
  reproc_terminate p w = Ret 0 w /\ reproc_kill p w = Ret 0 w /\ forall t, reproc_wait p t w = Ret (h_status p, p) w.
Proof.
  intros p w H. split; [apply reproc_terminate_cached, H|]. split; [apply reproc_kill_cached, H|].
  intros t. apply reproc_wait_cached, H.
Qed.
Print Assumptions C06_noop_after_reap.

(* a successful reap happens only while the handle's child is still unreaped: at the moment the
   waitpid event is logged the child (the positive pid stored in the handle) is a zombie, and it
   is that record which becomes reaped -- for every well-formed world *)
Theorem C06_reap_only_unreaped : forall p t w r p' w',
  wf w -> h_status p = STATUS_IN_PROGRESS -> 0 < h_handle p ->
  reproc_wait p t w = Ret (r, p') w' -> 0 <= r ->
  exists st wz ev post,
    pr_state (get_proc (h_handle p) wz) = Zombie st
    /\ w_trace w' = post ++ ev :: w_trace wz /\ e_call ev = CWaitpid /\ e_args ev = [h_handle p]
    /\ get_proc (h_handle p) w' = pr_with_state (Reaped st) (get_proc (h_handle p) wz).
Proof.
  intros p t w r p' w' W Hs Hp E Hr.
  destruct (reproc_wait_exact p t w r p' w' W Hs Hp E Hr) as (st & wz & Hz & Hrec & _ & (post & ev & Ht & Hc & Ha & _) & _).
  exists st, wz, ev, post. auto.
Qed.
Print Assumptions C06_reap_only_unreaped.

(* a handle that start reported as running refers to a positive pid, and that pid is what a fork
   call made by that very start returned -- on every path, for every fault plan (allocation
   failures included): never 0, -1 or some other process *)
Theorem C06_started_pid_is_own_fork : forall p argv o src (ck : rp -> MW unit) w r p' w',
  WorldSpec2.wf w -> 0 <= w_cur w -> 0 < w_next_blk w -> (forall q, kp (w_cur w) (ck q)) ->
  reproc_start p argv o src ck w = Ret (r, p') w' -> 0 <= r ->
  0 < h_handle p' /\
  exists l ev, w_trace w' = l ++ w_trace w /\ In ev l /\ e_call ev = CFork /\ e_ret ev = h_handle p' /\ e_pid ev = w_cur w'.
Proof.
  intros p argv o src ck w r p' w' W Hp Hb Hk E Hr.
  destruct (reproc_start_result p argv o src ck w r p' w' W Hp Hb Hk E) as [[H _]|(_ & H2 & H3 & _)]; [lia|].
  split; [exact H2|exact H3].
Qed.
Print Assumptions C06_started_pid_is_own_fork.

(* operations on a never-started handle are rejected without any system call *)
Theorem C06_not_started_rejected : forall p w, h_status p = STATUS_NOT_STARTED ->
  reproc_terminate p w = Ret REPROC_EINVAL w /\ reproc_kill p w = Ret REPROC_EINVAL w
  /\ (forall t, reproc_wait p t w = Ret (REPROC_EINVAL, p) w)
  /\ (forall a, reproc_stop p a w = Ret (REPROC_EINVAL, p) w).
Proof.
  intros p w H. unfold reproc_terminate, reproc_kill, reproc_wait, reproc_stop. rewrite H. cbn.
  repeat split; reflexivity.
Qed.
Print Assumptions C06_not_started_rejected.

(* THE PID A HANDLE HOLDS, ANY HISTORY, ANY FAULT PLAN: after any sequence of calls on a handle made
   by reproc_new (failing starts, successful starts, restarts, waits, stop sequences ...), either the
   handle is still not started and holds the invalid marker (and terminate / kill / wait / stop
   make no system call at all: C06_not_started_rejected), or the pid it holds -- the only pid its
   kill and waitpid calls ever name (C06_*_targets) -- is strictly greater than the caller's own
   pid: positive, never 0 or -1 (no process-group or broadcast target), never the caller itself *)
Theorem C06_history_pid : forall (ck : rp -> MW unit) ops p w p' w',
  WorldSpec2.wf w -> 0 <= w_cur w -> 0 < w_next_blk w -> (forall q, kp (w_cur w) (ck q)) -> fresh_handle p ->
  run_hops ck p ops w = Ret p' w' ->
  (h_status p' = STATUS_NOT_STARTED -> h_handle p' = PROCESS_INVALID) /\
  (h_status p' <> STATUS_NOT_STARTED -> w_cur w < h_handle p' /\ 0 < h_handle p' /\ h_handle p' <> w_cur w').
Proof. exact history_pid. Qed.
Print Assumptions C06_history_pid.

Example C06_ex : api_ev (rp_with_handle 4242 (rp_new 1))
  {| e_pid := 1; e_call := CKill; e_args := [4242; 15]; e_sargs := []; e_ret := 0; e_outs := []; e_errno := 0; e_time := 0; e_blocked := 0 |}.
Proof. left. cbn. auto. Qed.
