(* Properties_C02.v — C02: stream fidelity.  Theorems only. *)
From Verif Require Import Lib WorldSpec LibSpec LibSpec2 ProofsMisc StreamKeep.
From Coq Require Import Lia.
Local Open Scope Z_scope.

(* the world's pipe is a FIFO of byte positions: a read takes a prefix; what it takes followed by
   what stays is exactly the buffer — every byte once, in order — and it takes exactly
   min(requested, available) bytes; writes append at the back *)
Theorem C02_pipe_take_prefix : forall buf n a b, runs_nonneg buf -> take_runs n buf = (a, b) ->
  expand_all a ++ expand_all b = expand_all buf /\ runs_len a = Z.max 0 (Z.min n (runs_len buf))
  /\ runs_nonneg a /\ runs_nonneg b.
Proof. exact take_runs_spec. Qed.
Print Assumptions C02_pipe_take_prefix.
Theorem C02_pipe_append_back : forall r p, expand_all (p_buf (pipe_append r p)) = expand_all (p_buf p) ++ expand r.
Proof. exact pipe_append_expand. Qed.
Print Assumptions C02_pipe_append_back.

(* read()==0 for a positive size is the only result mapped to the closed-pipe error (after the
   fix of D6: a size-0 read is not) *)
Theorem C02_epipe_mapping : forall p size,
  pipe_read p size =
  (let* '(r, rs) := sys_read p size in
   if (r =? 0) && (0 <? size) then ret (- EPIPE, [])
   else if r <? 0 then let* e := get_errno in ret (- e, [])
   else ret (r, rs)).
Proof. exact pipe_read_unfold. Qed.
Print Assumptions C02_epipe_mapping.

(* the closed-stream error closes the parent's end and marks the stream invalid, any other result
   leaves the handle untouched; a read never touches stdin, the status or the exit pipe *)
Theorem C02_read_closes_on_epipe : forall p s n,
  post (reproc_read p s true n)
       (fun res => let '(r, _, p') := res in
                   (r = REPROC_EPIPE -> s = REPROC_STREAM_OUT \/ s = REPROC_STREAM_ERR -> h_status p <> STATUS_IN_CHILD -> stream_field s p' = -1)
                   /\ (r <> REPROC_EPIPE -> p' = p)
                   /\ h_in p' = h_in p /\ h_status p' = h_status p /\ h_handle p' = h_handle p /\ h_exit p' = h_exit p).
Proof. exact post_reproc_read. Qed.
Print Assumptions C02_read_closes_on_epipe.

(* ... and from then on every read of that stream returns the error without touching the world: sticky *)
Theorem C02_epipe_sticky : forall p s n w, h_status p <> STATUS_IN_CHILD ->
  (s = REPROC_STREAM_OUT \/ s = REPROC_STREAM_ERR) -> stream_field s p = PIPE_INVALID ->
  reproc_read p s true n w = Ret (REPROC_EPIPE, [], p) w.
Proof. exact closed_stream_read. Qed.
Print Assumptions C02_epipe_sticky.

(* a write error EPIPE closes the parent's stdin end so later writes keep failing the same way *)
Theorem C02_write_closes_on_epipe : forall p d,
  post (reproc_write p true d)
       (fun res => let '(r, p') := res in
                   (r = REPROC_EPIPE -> h_status p <> STATUS_IN_CHILD -> h_in p' = -1) /\ (r <> REPROC_EPIPE -> p' = p)
                   /\ h_out p' = h_out p /\ h_err p' = h_err p /\ h_status p' = h_status p /\ h_handle p' = h_handle p /\ h_exit p' = h_exit p).
Proof. exact post_reproc_write. Qed.
Print Assumptions C02_write_closes_on_epipe.
Theorem C02_write_epipe_sticky : forall p d w, h_status p <> STATUS_IN_CHILD -> h_in p = PIPE_INVALID ->
  reproc_write p true d w = Ret (REPROC_EPIPE, p) w.
Proof. exact closed_stream_write. Qed.
Print Assumptions C02_write_epipe_sticky.

Example C02_ex : take_runs 5 [RPos 7 0 3; RPos 7 3 10] = ([RPos 7 0 3; RPos 7 3 2], [RPos 7 5 8]).
Proof. vm_compute. reflexivity. Qed.

(* COLLECTING THE STATUS DOES NOT TOUCH THE STREAMS: a wait, and a whole stop sequence (every wait,
   terminate and kill in it), leave the handle's stream ends exactly as they were -- whatever they
   return, in every world.  With C01_wait_footprint (the only descriptor a wait closes is the exit
   pipe) this is why output written before the child exited is still delivered after the status
   has been collected. *)
Theorem C02_wait_keeps_streams : forall p t,
  post (reproc_wait p t) (fun res => same_streams p (snd res)).
Proof. exact wait_keeps_streams. Qed.
Print Assumptions C02_wait_keeps_streams.
Theorem C02_stop_keeps_streams : forall p a,
  post (reproc_stop p a) (fun res => same_streams p (snd res)).
Proof. exact stop_keeps_streams. Qed.
Print Assumptions C02_stop_keeps_streams.
Example C02_keeps_ex : same_streams (rp_with_pipes 4 5 6 7 (rp_new 1)) (rp_with_status 3 (rp_with_exit (-1) (rp_with_pipes 4 5 6 7 (rp_new 1)))).
Proof. unfold same_streams. repeat split. Qed.
