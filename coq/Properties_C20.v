(* Properties_C20.v — C20: documented thread-safety.  What a proof over the library model can carry:
   read and write have disjoint footprints on the handle (hence commute, so every interleaving
   of a reader and a writer at system-call granularity equals a sequential order); an
   operation touches only its own handle's descriptors and pid (frame).  C-level data-race
   freedom under preemption is NOT provable here (partial): the tie adds a ThreadSanitizer run
   and a static scan for shared mutable globals. *)
From Verif Require Import Lib WorldSpec WorldSpec2 LibSpec LibSpec2 ProofsMisc ParentSpec FdSpec MultiSpec.
Import Lib.
From Coq Require Import Lia.
Local Open Scope Z_scope.

(* reading neither reads nor writes the stdin field: whatever it holds, the read behaves the same
   and hands it back unchanged *)
Theorem C20_read_ignores_stdin_field : forall p x s b n w,
  reproc_read (rp_with_in x p) s b n w =
  match reproc_read p s b n w with
  | Ret (r, rs, p') w' => Ret (r, rs, rp_with_in x p') w'
  | Hang w' => Hang w' | Stop w' => Stop w' | Crash y w' => Crash y w'
  end.
Proof. exact reproc_read_ignores_in. Qed.
Print Assumptions C20_read_ignores_stdin_field.

(* writing neither reads nor writes the stdout / stderr fields *)
Theorem C20_write_ignores_output_fields : forall p xo xe b d w,
  reproc_write (rp_with_err xe (rp_with_out xo p)) b d w =
  match reproc_write p b d w with
  | Ret (r, p') w' => Ret (r, rp_with_err xe (rp_with_out xo p')) w'
  | Hang w' => Hang w' | Stop w' => Stop w' | Crash y w' => Crash y w'
  end.
Proof. exact reproc_write_ignores_out. Qed.
Print Assumptions C20_write_ignores_output_fields.

(* neither writes the status, the pid or the exit pipe *)
Theorem C20_read_frame : forall p s n,
  post (reproc_read p s true n)
       (fun res => let '(r, _, p') := res in
                   (r = REPROC_EPIPE -> s = REPROC_STREAM_OUT \/ s = REPROC_STREAM_ERR -> h_status p <> STATUS_IN_CHILD -> stream_field s p' = -1)
                   /\ (r <> REPROC_EPIPE -> p' = p)
                   /\ h_in p' = h_in p /\ h_status p' = h_status p /\ h_handle p' = h_handle p /\ h_exit p' = h_exit p).
Proof. exact post_reproc_read. Qed.
Print Assumptions C20_read_frame.
Theorem C20_write_frame : forall p d,
  post (reproc_write p true d)
       (fun res => let '(r, p') := res in
                   (r = REPROC_EPIPE -> h_status p <> STATUS_IN_CHILD -> h_in p' = -1) /\ (r <> REPROC_EPIPE -> p' = p)
                   /\ h_out p' = h_out p /\ h_err p' = h_err p /\ h_status p' = h_status p /\ h_handle p' = h_handle p /\ h_exit p' = h_exit p).
Proof. exact post_reproc_write. Qed.
Print Assumptions C20_write_frame.

(* operating on one child never signals, reaps or closes anything of another: the footprint of
   every post-start operation names only the handle's own pid and descriptors *)
Theorem C20_frame_stop : forall p a, emitsR (reproc_stop p a) (api_ev p) (fun rp' => shrinks p (snd rp')).
Proof. exact emitsR_reproc_stop. Qed.
Print Assumptions C20_frame_stop.
Theorem C20_frame_destroy : forall p, emits (reproc_destroy p) (api_ev p).
Proof. exact emits_reproc_destroy. Qed.
Print Assumptions C20_frame_destroy.

Example C20_ex : h_in (rp_with_in 9 (rp_new 1)) = 9 /\ h_out (rp_with_in 9 (rp_new 1)) = -1.
Proof. split; reflexivity. Qed.

(* HANDLES ARE INDEPENDENT IN THE DESCRIPTOR TABLE, EVERY FAULT PLAN: with any number of live
   handles (each in any state of its life: invariant MI), a call on one of them -- start, read,
   write, close, poll, wait, terminate, kill, stop -- leaves every descriptor owned by every OTHER
   live handle exactly as it was: same number, same object, same flags, still open.  (And the
   caller's own descriptors: C05.)  The handle operated on shares no descriptor with the others
   before or after the call (the owned sets are pairwise disjoint: part of MI). *)
Theorem C20_call_leaves_other_handles_descriptors : forall T c (ck : rp -> MW unit) l1 p l2 op w p' w',
  MI T c (l1 ++ p :: l2) w -> (forall q, kp c (ck q)) ->
  run_hop ck p op w = Ret p' w' ->
  forall fd, In fd (POWNS (l1 ++ l2)) -> pr_fds (curp w') !! fd = pr_fds (curp w) !! fd.
Proof. exact call_leaves_other_handles_untouched. Qed.
Print Assumptions C20_call_leaves_other_handles_descriptors.
Theorem C20_invariant_kept_by_every_call : forall T c (ck : rp -> MW unit) l1 p l2 op w p' w',
  MI T c (l1 ++ p :: l2) w -> (forall q, kp c (ck q)) ->
  run_hop ck p op w = Ret p' w' -> MI T c (l1 ++ p' :: l2) w'.
Proof. exact MI_call. Qed.
Print Assumptions C20_invariant_kept_by_every_call.
