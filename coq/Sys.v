(* Sys.v — the system-call surface of the world (DESIGN.md 3.2, Appendix E).
   One Gallina function per libc entry point reproc reaches.  Definitions only. *)
From Verif Require Export Sched.
Local Open Scope Z_scope.

Notation MW := (@M world).

(* ---- prelude / epilogue common to every call ---- *)
Definition prelude : MW (option positive) := fun w =>
  let idx := w_calls w in
  let w1 := w_with_calls (idx + 1) w in
  let lat := Z.max 0 (default 0 (assocZ idx (w_lat w))) in
  match advance_to (w_time w1 + lat) w1 with
  | None => Crash crash_fuel w1
  | Some w2 => Ret (assocZ idx (w_faults w)) w2
  end.

Definition set_errno (e : Z) : MW unit := modify (upd_cur (pr_with_errno e)).
Definition get_errno : MW Z := gets (fun w => pr_errno (curp w)).

Definition log (c : callid) (args : list Z) (sargs : list str) (r : Z) (outs : list Z)
           (blocked : Z) : MW unit :=
  modify (fun w => w_with_trace
    ({| e_pid := w_cur w; e_call := c; e_args := args; e_sargs := sargs; e_ret := r;
        e_outs := outs; e_errno := pr_errno (curp w); e_time := w_time w;
        e_blocked := blocked |} :: w_trace w) w).

Definition fail (c : callid) (args : list Z) (sargs : list str) (e : Z) : MW Z :=
  set_errno e ;> log c args sargs (-1) [] 0 ;> ret (-1).
(* a blocking call interrupted by the fault plan: the latency of that very call is the time it
   had been blocked when the failure (e.g. EINTR) arrived *)
Definition last_lat : MW Z :=
  gets (fun w => Z.max 0 (default 0 (assocZ (w_calls w - 1) (w_lat w)))).
Definition failb (c : callid) (args : list Z) (sargs : list str) (e : Z) : MW Z :=
  let* l := last_lat in set_errno e ;> log c args sargs (-1) [] l ;> ret (-1).
Definition done (c : callid) (args : list Z) (sargs : list str) (r : Z) (outs : list Z) : MW Z :=
  log c args sargs r outs 0 ;> ret r.

Definition set_cur_fds (t : gmap Z fdent) : MW unit := modify (upd_cur (pr_with_fds t)).

(* ---- descriptors ---- *)
Definition sys_pipe : MW (Z * Z * Z) :=
  let* f := prelude in
  match f with
  | Some e => fail CPipe [] [] (Zpos e) ;> ret (-1, -1, -1)
  | None =>
      let* w := get in
      let p := curp w in
      match fd_alloc (pr_fds p) (pr_rlimit p) with
      | None => fail CPipe [] [] EMFILE ;> ret (-1, -1, -1)
      | Some a =>
          let id := w_next_pipe w in
          let t1 := <[a := {| f_obj := OPipeR id; f_cloexec := false; f_nonblock := false |}]> (pr_fds p) in
          match fd_alloc t1 (pr_rlimit p) with
          | None => fail CPipe [] [] EMFILE ;> ret (-1, -1, -1)
          | Some b =>
              let t2 := <[b := {| f_obj := OPipeW id; f_cloexec := false; f_nonblock := false |}]> t1 in
              modify (fun w => w_with_next_pipe (id + 1) (set_pipe id {| p_buf := []; p_len := 0 |} w)) ;>
              set_cur_fds t2 ;>
              done CPipe [] [] 0 [a; b] ;> ret (0, a, b)
          end
      end
  end.

Definition sys_getfd (fd : Z) : MW Z :=
  let* f := prelude in
  match f with
  | Some e => fail CGetfd [fd] [] (Zpos e)
  | None =>
      let* t := gets cur_fds in
      match t !! fd with
      | None => fail CGetfd [fd] [] EBADF
      | Some d => done CGetfd [fd] [] (if f_cloexec d then FD_CLOEXEC else 0) []
      end
  end.

Definition sys_setfd (fd v : Z) : MW Z :=
  let* f := prelude in
  match f with
  | Some e => fail CSetfd [fd; v] [] (Zpos e)
  | None =>
      let* t := gets cur_fds in
      match t !! fd with
      | None => fail CSetfd [fd; v] [] EBADF
      | Some d => set_cur_fds (<[fd := fd_set_cloexec (has_bit v FD_CLOEXEC) d]> t) ;>
                  done CSetfd [fd; v] [] 0 []
      end
  end.

Definition acc_flags (o : obj) : Z :=
  match o with
  | OPipeR _ => O_RDONLY | OPipeW _ => O_WRONLY
  | ONull a | OFile _ a | OExt _ a => match a with ARd => O_RDONLY | AWr => O_WRONLY | ARW => O_RDWR end
  end.

Definition sys_getfl (fd : Z) : MW Z :=
  let* f := prelude in
  match f with
  | Some e => fail CGetfl [fd] [] (Zpos e)
  | None =>
      let* t := gets cur_fds in
      match t !! fd with
      | None => fail CGetfl [fd] [] EBADF
      | Some d => done CGetfl [fd] [] (acc_flags (f_obj d) + (if f_nonblock d then O_NONBLOCK else 0)) []
      end
  end.

Definition sys_setfl (fd v : Z) : MW Z :=
  let* f := prelude in
  match f with
  | Some e => fail CSetfl [fd; v] [] (Zpos e)
  | None =>
      let* t := gets cur_fds in
      match t !! fd with
      | None => fail CSetfl [fd; v] [] EBADF
      | Some d => set_cur_fds (<[fd := fd_set_nonblock (has_bit v O_NONBLOCK) d]> t) ;>
                  done CSetfl [fd; v] [] 0 []
      end
  end.

(* close releases the descriptor even when it reports an (injected) error — Linux (A6) *)
Definition sys_close (fd : Z) : MW Z :=
  let* f := prelude in
  let* t := gets cur_fds in
  match t !! fd with
  | None => fail CClose [fd] [] EBADF
  | Some _ =>
      set_cur_fds (delete fd t) ;>
      match f with
      | Some e => fail CClose [fd] [] (Zpos e)
      | None => done CClose [fd] [] 0 []
      end
  end.

Definition sys_dup2 (a b : Z) : MW Z :=
  let* f := prelude in
  match f with
  | Some e => fail CDup2 [a; b] [] (Zpos e)
  | None =>
      let* t := gets cur_fds in
      match t !! a with
      | None => fail CDup2 [a; b] [] EBADF
      | Some d =>
          if b <? 0 then fail CDup2 [a; b] [] EBADF
          else if a =? b then done CDup2 [a; b] [] b []
          else set_cur_fds (<[b := fd_set_cloexec false d]> t) ;> done CDup2 [a; b] [] b []
      end
  end.

(* fcntl(fd, F_DUPFD_CLOEXEC, minfd): lowest free descriptor >= minfd, close-on-exec set *)
Fixpoint lowest_free_ge (t : gmap Z fdent) (i : Z) (fuel : nat) : Z :=
  match fuel with
  | O => i
  | S f => match t !! i with None => i | Some _ => lowest_free_ge t (i + 1) f end
  end.
Definition sys_dupfd (fd minfd : Z) (cloexec : bool) : MW Z :=
  let* f := prelude in
  match f with
  | Some e => fail CDupfd [fd; minfd; if cloexec then 1 else 0] [] (Zpos e)
  | None =>
      let* w := get in
      let p := curp w in
      match pr_fds p !! fd with
      | None => fail CDupfd [fd; minfd; if cloexec then 1 else 0] [] EBADF
      | Some d =>
          let n := lowest_free_ge (pr_fds p) (Z.max 0 minfd) (size (pr_fds p)) in
          if (0 <=? pr_rlimit p) && (pr_rlimit p <=? n) then fail CDupfd [fd; minfd; if cloexec then 1 else 0] [] EMFILE
          else set_cur_fds (<[n := fd_set_cloexec cloexec d]> (pr_fds p)) ;> done CDupfd [fd; minfd; if cloexec then 1 else 0] [] n []
      end
  end.

(* ---- read / write / poll ---- *)
Definition blocked_since (t0 : Z) : MW Z := gets (fun w => w_time w - t0).

Definition pipe_readable (q : Z) (w : world) : bool :=
  (0 <? p_len (get_pipe q w)) || negb (has_writer q w).

Definition sys_read (fd n : Z) : MW (Z * list run) :=
  let* f := prelude in
  match f with
  | Some e => failb CRead [fd; n] [] (Zpos e) ;> ret (-1, [])
  | None =>
      let* t := gets cur_fds in
      match t !! fd with
      | None => fail CRead [fd; n] [] EBADF ;> ret (-1, [])
      | Some d =>
          match f_obj d with
          | OPipeW _ => fail CRead [fd; n] [] EBADF ;> ret (-1, [])
          | OPipeR q =>
              if n <=? 0 then done CRead [fd; n] [] 0 [] ;> ret (0, []) else
              let* w0 := get in
              if negb (pipe_readable q w0) && f_nonblock d then
                fail CRead [fd; n] [] EAGAIN ;> ret (-1, [])
              else
                fun w =>
                  match block_until (pipe_readable q) (-1) w with
                  | BReady w1 =>
                      let '(rs, pp) := pipe_take n (get_pipe q w1) in
                      let k := runs_len rs in
                      (log CRead [fd; n] [] k [] (w_time w1 - w_time w) ;> ret (k, rs))
                        (set_pipe q pp w1)
                  | BTimeout w1 => Crash crash_unmodelled w1
                  | BHang w1 => Hang w1
                  | BFuel w1 => Crash crash_fuel w1
                  end
          | _ => done CRead [fd; n] [] 0 [] ;> ret (0, [])
          end
      end
  end.

Inductive write_res := WDone (n : Z) (w : world) | WErr (e : Z) (w : world)
                     | WHang (w : world) | WFuel (w : world).

Definition put_runs (q : Z) (rs : list run) (w : world) : world :=
  set_pipe q (fold_left (fun p r => pipe_append r p) rs (get_pipe q w)) w.

Definition write_need (rem : Z) : Z := if rem <=? pipe_atomic then rem else 1.
Definition pipe_writable_for (q need : Z) (w : world) : bool :=
  (need <=? pipe_free_cap (w_pipecap w) (get_pipe q w)) || negb (has_reader q w).

Fixpoint write_loop (fuel : nat) (q : Z) (nonblock : bool) (data : list run) (written : Z)
         (w : world) : write_res :=
  match fuel with
  | O => WFuel w
  | S fu =>
      let rem := runs_len data in
      if negb (has_reader q w) then (if written =? 0 then WErr EPIPE w else WDone written w)
      else if rem <=? 0 then WDone written w
      else
        let free := pipe_free_cap (w_pipecap w) (get_pipe q w) in
        let need := write_need rem in
        if need <=? free then
          let k := Z.min rem free in
          let '(a, rest) := take_runs k data in
          let w1 := put_runs q a w in
          if nonblock then WDone (written + k) w1
          else if rem - k <=? 0 then WDone (written + k) w1
          else match block_until (pipe_writable_for q (write_need (rem - k))) (-1) w1 with
               | BReady w2 => write_loop fu q nonblock rest (written + k) w2
               | BTimeout w2 => WFuel w2
               | BHang w2 => WHang w2
               | BFuel w2 => WFuel w2
               end
        else if nonblock then (if written =? 0 then WErr EAGAIN w else WDone written w)
        else match block_until (pipe_writable_for q need) (-1) w with
             | BReady w2 => write_loop fu q nonblock data written w2
             | BTimeout w2 => WFuel w2
             | BHang w2 => WHang w2
             | BFuel w2 => WFuel w2
             end
  end.

Definition sys_write (fd : Z) (data : list run) : MW Z :=
  let n := runs_len data in
  let* f := prelude in
  match f with
  | Some e => failb CWrite [fd; n] [] (Zpos e)
  | None =>
      let* t := gets cur_fds in
      match t !! fd with
      | None => fail CWrite [fd; n] [] EBADF
      | Some d =>
          match f_obj d with
          | OPipeR _ => fail CWrite [fd; n] [] EBADF
          | OPipeW q =>
              fun w =>
                let fuel := (Z.to_nat (n / pipe_atomic) + total_weight w * 2 + 8)%nat in
                match write_loop fuel q (f_nonblock d) data 0 w with
                | WDone k w1 => (log CWrite [fd; n] [] k [] (w_time w1 - w_time w) ;> ret k) w1
                | WErr e w1 => (set_errno e ;> log CWrite [fd; n] [] (-1) [] (w_time w1 - w_time w) ;> ret (-1)) w1
                | WHang w1 => Hang w1
                | WFuel w1 => Crash crash_fuel w1
                end
          | _ => done CWrite [fd; n] [] n []
          end
      end
  end.

Definition revents_of (w : world) (fe : Z * Z) : Z :=
  let '(fd, ev) := fe in
  if fd <? 0 then 0 else
  match cur_fds w !! fd with
  | None => POLLNVAL
  | Some d =>
      match f_obj d with
      | OPipeR q =>
          (if has_bit ev POLLIN && (0 <? p_len (get_pipe q w)) then POLLIN else 0)
          + (if has_writer q w then 0 else POLLHUP)
      | OPipeW q =>
          (* Linux: POLLOUT iff the pipe is not full, whether or not a reader remains; POLLERR iff none *)
          (if has_bit ev POLLOUT && (pipe_atomic <=? pipe_free_cap (w_pipecap w) (get_pipe q w)) then POLLOUT else 0)
          + (if has_reader q w then 0 else POLLERR)
      | _ => (if has_bit ev POLLIN then POLLIN else 0) + (if has_bit ev POLLOUT then POLLOUT else 0)
      end
  end.
Definition poll_ready (fds : list (Z * Z)) (w : world) : bool :=
  existsb (fun fe => negb (revents_of w fe =? 0)) fds.
Definition count_nz (l : list Z) : Z := zlen (filter (fun x => negb (x =? 0)) l).
Definition flat_fds (fds : list (Z * Z)) : list Z := flat_map (fun fe => [fst fe; snd fe]) fds.

Definition sys_poll (fds : list (Z * Z)) (tmo : Z) : MW (Z * list Z) :=
  let args := tmo :: flat_fds fds in
  let* f := prelude in
  match f with
  | Some e =>
      (* interrupted after having been blocked for the call's latency, but never longer than its time-out *)
      let* l := last_lat in
      set_errno (Zpos e) ;> log CPoll args [] (-1) [] (if tmo <? 0 then l else Z.min l tmo) ;>
      ret (-1, map (fun _ => 0) fds)
  | None =>
      fun w =>
        match block_until (poll_ready fds) tmo w with
        | BReady w1 =>
            let rev := map (revents_of w1) fds in
            (log CPoll args [] (count_nz rev) rev (w_time w1 - w_time w) ;> ret (count_nz rev, rev)) w1
        | BTimeout w1 =>
            let rev := map (fun _ => 0) fds in
            (log CPoll args [] 0 rev (w_time w1 - w_time w) ;> ret (0, rev)) w1
        | BHang w1 => Hang w1
        | BFuel w1 => Crash crash_fuel w1
        end
  end.

(* ---- paths, open, chdir, getcwd ---- *)
Definition slash : Z := 47.
Definition is_abs (p : str) : bool := match p with c :: _ => c =? slash | [] => false end.
Definition ends_slash (p : str) : bool := last p 0 =? slash.   (* List.rev is quadratic *)
Definition strip_dot_slash (p : str) : str :=
  match p with 46 :: 47 :: r => r | _ => p end.
(* lexical normalisation of an absolute path: "." and empty components dropped, ".." pops
   (no symbolic links in the modelled file system) *)
Fixpoint split_slash (cur : str) (s : str) : list str :=
  match s with
  | [] => [List.rev' cur]
  | c :: r => if c =? slash then List.rev' cur :: split_slash [] r else split_slash (c :: cur) r
  end.
Definition norm_step (stack : list str) (comp : str) : list str :=
  match comp with
  | [] => stack
  | [46] => stack
  | [46; 46] => match stack with _ :: t => t | [] => [] end
  | _ => comp :: stack
  end.
Definition join_slash (comps : list str) : str :=
  match comps with
  | [] => [slash]
  | _ => flat_map (fun c => slash :: c) comps
  end.
Definition normalize_path (p : str) : str :=
  join_slash (List.rev' (fold_left norm_step (split_slash [] p) [])).
Definition has_dot_comp (p : str) : bool :=
  existsb (fun c => match c with [46] | [46; 46] | [] => true | _ => false end) (tl (split_slash [] p)).
Definition abs_path (cwd p : str) : str :=
  let full := if is_abs p then p
              else cwd ++ (if ends_slash cwd then [] else [slash]) ++ strip_dot_slash p in
  (* keep the literal form unless it contains ".", ".." or empty components (trailing slash kept) *)
  if has_dot_comp (if ends_slash full then removelast full else full) then normalize_path full else full.
Definition has_slash (p : str) : bool := memZ slash p.

(* directory part of an absolute path: everything before the last slash ("/" for top level) *)
Fixpoint drop_last_comp (rp : str) : str :=   (* on the reversed path *)
  match rp with
  | [] => []
  | c :: r => if c =? slash then r else drop_last_comp r
  end.
Definition dirname (p : str) : str :=
  match rev (drop_last_comp (rev p)) with [] => [slash] | d => d end.

Definition fs_lookup (p : str) (w : world) : option fskind := assoc_str p (w_fs w).
Definition dev_null : str := [47; 100; 101; 118; 47; 110; 117; 108; 108].

Definition acc_of_flags (fl : Z) : acc :=
  let m := Z.land fl 3 in if m =? O_RDONLY then ARd else if m =? O_WRONLY then AWr else ARW.

Definition sys_open (path : str) (flags mode : Z) : MW Z :=
  let* f := prelude in
  match f with
  | Some e => fail COpen [flags; mode] [path] (Zpos e)
  | None =>
      let* w := get in
      let p := curp w in
      let full := abs_path (pr_cwd p) path in
      let a := acc_of_flags flags in
      let mk (o : obj) : MW Z :=
        match fd_alloc (pr_fds p) (pr_rlimit p) with
        | None => fail COpen [flags; mode] [path] EMFILE
        | Some fd =>
            set_cur_fds (<[fd := {| f_obj := o; f_cloexec := has_bit flags O_CLOEXEC;
                                     f_nonblock := has_bit flags O_NONBLOCK |}]> (pr_fds p)) ;>
            done COpen [flags; mode] [path] fd []
        end in
      if str_eqb full dev_null then mk (ONull a) else
      match fs_lookup full w with
      | Some FDir => match a with
                     | ARd => mk (OFile full a)
                     | _ => fail COpen [flags; mode] [path] EISDIR
                     end
      | Some FUnreadable => fail COpen [flags; mode] [path] EACCES
      | Some _ => mk (OFile full a)
      | None =>
          if has_bit flags O_CREAT then
            match fs_lookup (dirname full) w with
            | Some FDir => modify (fun w => w_with_fs (w_fs w ++ [(full, FFile)]) w) ;> mk (OFile full a)
            | Some _ => fail COpen [flags; mode] [path] ENOTDIR
            | None => fail COpen [flags; mode] [path] ENOENT
            end
          else fail COpen [flags; mode] [path] ENOENT
      end
  end.

Definition sys_chdir (path : str) : MW Z :=
  let* f := prelude in
  match f with
  | Some e => fail CChdir [] [path] (Zpos e)
  | None =>
      (* chdir(""): ENOENT (path_resolution(7): an empty pathname does not name anything) *)
      if match path with [] => true | _ => false end then fail CChdir [] [path] ENOENT else
      let* w := get in
      let full := abs_path (pr_cwd (curp w)) path in
      match fs_lookup full w with
      | Some FDir => modify (upd_cur (pr_with_cwd full)) ;> done CChdir [] [path] 0 []
      | Some _ => fail CChdir [] [path] ENOTDIR
      | None => fail CChdir [] [path] ENOENT
      end
  end.

(* returns (0, cwd) or (-1, []) *)
Definition sys_getcwd (size : Z) : MW (Z * str) :=
  let* f := prelude in
  match f with
  | Some e => fail CGetcwd [size] [] (Zpos e) ;> ret (-1, [])
  | None =>
      let* w := get in
      let c := pr_cwd (curp w) in
      if size <? zlen c + 1 then fail CGetcwd [size] [] ERANGE ;> ret (-1, [])
      else done CGetcwd [size] [c] 0 [] ;> ret (0, c)
  end.

Definition sys_fileno (file : Z) : MW Z :=
  let* f := prelude in
  match f with
  | Some e => fail CFileno [file] [] (Zpos e)
  | None =>
      let* w := get in
      match w_files w !! file with
      | Some (Some fd) => done CFileno [file] [] fd []
      | _ => fail CFileno [file] [] EBADF
      end
  end.

(* ---- processes ---- *)
Definition sys_getrlimit : MW (Z * Z) :=
  let* f := prelude in
  match f with
  | Some e => fail CGetrlimit [] [] (Zpos e) ;> ret (-1, 0)
  | None => let* w := get in let l := pr_rlimit (curp w) in done CGetrlimit [] [] 0 [l] ;> ret (0, l)
  end.

(* fork: the child code runs to its end (exec / _exit / child_done) before the
   parent continues — the only schedule the parent can observe, because it blocks
   on the error pipe (DESIGN.md 3.6). *)
(* split in two so that the implementation run (which really forks) uses the same pieces *)
Definition fork_pre : MW Z :=
  let* f := prelude in
  match f with
  | Some e => fail CFork [] [] (Zpos e)
  | None =>
      fun w =>
        let c := w_next_pid w in
        let par := w_cur w in
        let w1 := w_with_next_pid (c + 1)
                    (w_with_procs (<[c := pr_fork_copy par (curp w)]> (w_procs w)) w) in
        (log CFork [] [] 0 [] 0 ;> ret c) (w_with_cur c w1)
  end.
Definition fork_post (par c : Z) : MW Z := fun w =>
  (log CFork [] [] c [] 0 ;> ret c) (w_with_cur par w).
Definition sys_fork (child : MW unit) : MW Z :=
  let* par := gets w_cur in
  let* c := fork_pre in
  if c <? 0 then ret c else
  fun w =>
    match child w with
    | Stop w3 => fork_post par c w3
    | Ret _ w3 => Crash crash_unmodelled w3
    | Hang w3 => Hang w3
    | Crash y w3 => Crash y w3
    end.

Definition path_prefix : str := [80; 65; 84; 72; 61].  (* "PATH=" *)
Fixpoint is_prefix (a b : str) : bool :=
  match a, b with
  | [], _ => true
  | x :: a', y :: b' => (x =? y) && is_prefix a' b'
  | _, [] => false
  end.
Fixpoint split_colon (cur : str) (s : str) : list str :=
  match s with
  | [] => [rev cur]
  | c :: r => if c =? 58 then rev cur :: split_colon [] r else split_colon (c :: cur) r
  end.
Definition default_path : list str := [[47; 98; 105; 110]; [47; 117; 115; 114; 47; 98; 105; 110]].
Definition path_dirs (env : list str) : list str :=
  match find (is_prefix path_prefix) env with
  | Some e => filter (fun d => negb (str_eqb d [])) (split_colon [] (skipn 5 e))
  | None => default_path
  end.

Definition exec_candidates (p : proc) (prog : str) : list str :=
  if has_slash prog then [abs_path (pr_cwd p) prog]
  else map (fun d => abs_path (pr_cwd p) d ++ (if ends_slash d then [] else [slash]) ++ prog)
           (path_dirs (pr_env p)).

(* first executable candidate, or the errno of the search *)
Fixpoint exec_search (w : world) (cands : list str) (seen_acces : bool) : str * list act + Z :=
  match cands with
  | [] => inr (if seen_acces then EACCES else ENOENT)
  | c :: r =>
      match fs_lookup c w with
      | Some (FExec s) => inl (c, s)
      | Some _ => exec_search w r true
      | None => exec_search w r seen_acces
      end
  end.

Definition exec_disp (d : gmap Z disp) : gmap Z disp :=
  base.filter (fun kv : Z * disp => snd kv = DIgnore) d.
Definition exec_fds (t : gmap Z fdent) : gmap Z fdent :=
  base.filter (fun kv : Z * fdent => f_cloexec (snd kv) = false) t.

Definition sys_execvp (prog : str) (argv : list str) : MW Z :=
  let* f := prelude in
  match f with
  | Some e => fail CExecvp [] (prog :: argv) (Zpos e)
  | None =>
      fun w =>
        let p := curp w in
        match exec_search w (exec_candidates p prog) false with
        | inr e => fail CExecvp [] (prog :: argv) e w
        | inl (path, script) =>
            let t := exec_fds (pr_fds p) in
            let d := exec_disp (pr_disp p) in
            let im := {| im_prog := path; im_argv := argv; im_env := pr_env p; im_cwd := pr_cwd p;
                         im_fds := map_to_list t; im_mask := pr_mask p;
                         im_disp := map_to_list d; im_time := w_time w |} in
            match (log CExecvp [] (prog :: argv) 0 [] 0) w with
            | Ret _ w1 => Stop (upd_cur (pr_exec im t d script (w_time w1)) w1)
            | o => Crash crash_unmodelled w
            end
        end
  end.

Definition sys__exit (code : Z) : MW unit := fun w =>
  match (prelude ;> log CExit [code] [] 0 [] 0) w with
  | Ret _ w1 => Stop (kill_proc (w_cur w1) (wstatus_exit code) w1)
  | Hang w1 => Hang w1 | Stop w1 => Stop w1 | Crash y w1 => Crash y w1
  end.

(* a fork-mode child has returned to its caller and finished: it lives on as a script *)
Definition sys_child_done (script : list act) : MW unit := fun w =>
  Stop (upd_cur (pr_become_script script (w_time w)) w).

Definition is_child_of (par : Z) (p : proc) : bool :=
  (pr_parent p =? par) && match pr_state p with Reaped _ => false | _ => true end.
Definition zombie_children (par : Z) (w : world) : list (Z * N) :=
  flat_map (fun kv => match pr_state (snd kv) with
                      | Zombie st => if pr_parent (snd kv) =? par then [(fst kv, st)] else []
                      | _ => [] end) (map_to_list (w_procs w)).
Definition has_children (par : Z) (w : world) : bool :=
  existsb (fun kv => is_child_of par (snd kv)) (map_to_list (w_procs w)).

(* waitpid(pid, &status, 0); pid = -1 / 0: any child (recorded as such in the event).
   returns (result, status) *)
Definition sys_waitpid (pid : Z) : MW (Z * Z) :=
  let* f := prelude in
  match f with
  | Some e => failb CWaitpid [pid] [] (Zpos e) ;> ret (-1, 0)
  | None =>
      fun w =>
        let me := w_cur w in
        if 0 <? pid then
          match w_procs w !! pid with
          | Some p =>
              if is_child_of me p then
                match block_until (fun w => match pr_state (get_proc pid w) with
                                            | Running => false | _ => true end) (-1) w with
                | BReady w1 =>
                    match pr_state (get_proc pid w1) with
                    | Zombie st =>
                        (log CWaitpid [pid] [] pid [Z.of_N st] (w_time w1 - w_time w) ;> ret (pid, Z.of_N st))
                          (upd_proc pid (pr_with_state (Reaped st)) w1)
                    | _ => Crash crash_unmodelled w1
                    end
                | BTimeout w1 => Crash crash_unmodelled w1
                | BHang w1 => Hang w1
                | BFuel w1 => Crash crash_fuel w1
                end
              else (fail CWaitpid [pid] [] ECHILD ;> ret (-1, 0)) w
          | None => (fail CWaitpid [pid] [] ECHILD ;> ret (-1, 0)) w
          end
        else
          if negb (has_children me w) then (fail CWaitpid [pid] [] ECHILD ;> ret (-1, 0)) w else
          match block_until (fun w => match zombie_children me w with [] => false | _ => true end) (-1) w with
          | BReady w1 =>
              match zombie_children me w1 with
              | (c, st) :: _ =>
                  (log CWaitpid [pid] [] c [Z.of_N st] (w_time w1 - w_time w) ;> ret (c, Z.of_N st))
                    (upd_proc c (pr_with_state (Reaped st)) w1)
              | [] => Crash crash_unmodelled w1
              end
          | BTimeout w1 => Crash crash_unmodelled w1
          | BHang w1 => Hang w1
          | BFuel w1 => Crash crash_fuel w1
          end
  end.

(* waitpid(pid, &status, WNOHANG) for pid > 0: like sys_waitpid but returns 0 at once while the
   child is still running (only reached by rewrites of the library; the pinned code passes 0) *)
Definition sys_waitpid_nohang (pid : Z) : MW (Z * Z) :=
  let* f := prelude in
  match f with
  | Some e => failb CWaitpid [pid; 1] [] (Zpos e) ;> ret (-1, 0)
  | None =>
      let* w := get in
      match w_procs w !! pid with
      | Some p =>
          if (0 <? pid) && is_child_of (w_cur w) p then
            match pr_state p with
            | Zombie st =>
                modify (upd_proc pid (pr_with_state (Reaped st))) ;>
                log CWaitpid [pid; 1] [] pid [Z.of_N st] 0 ;> ret (pid, Z.of_N st)
            | _ => log CWaitpid [pid; 1] [] 0 [] 0 ;> ret (0, 0)
            end
          else fail CWaitpid [pid; 1] [] ECHILD ;> ret (-1, 0)
      | None => fail CWaitpid [pid; 1] [] ECHILD ;> ret (-1, 0)
      end
  end.

(* kill: pid <= 0 is a broadcast — recorded, never delivered (the C06 monitor rejects it) *)
Definition sys_kill (pid sig : Z) : MW Z :=
  let* f := prelude in
  match f with
  | Some e => fail CKill [pid; sig] [] (Zpos e)
  | None =>
      if pid <=? 0 then done CKill [pid; sig] [] 0 [] else
      let* w := get in
      match w_procs w !! pid with
      | Some p =>
          match pr_state p with
          | Reaped _ => fail CKill [pid; sig] [] ESRCH
          | Zombie _ => done CKill [pid; sig] [] 0 []
          | Running => modify (deliver pid sig) ;> done CKill [pid; sig] [] 0 []
          end
      | None => fail CKill [pid; sig] [] ESRCH
      end
  end.

(* ---- signals ---- *)
Definition all_signals : list Z := seqZ 1 64.
Definition norm_mask (s : list Z) : list Z :=
  filter (fun x => memZ x s && negb (x =? SIGKILL) && negb (x =? SIGSTOP)) all_signals.

Definition sys_sigfillset : MW Z :=
  let* f := prelude in
  match f with Some e => fail CSigfillset [] [] (Zpos e) | None => done CSigfillset [] [] 0 [] end.
Definition sys_sigemptyset : MW Z :=
  let* f := prelude in
  match f with Some e => fail CSigemptyset [] [] (Zpos e) | None => done CSigemptyset [] [] 0 [] end.

(* handler kind: 0 = SIG_DFL, 1 = SIG_IGN, 2 = a handler *)
Definition sys_sigaction (sig h : Z) : MW Z :=
  let* f := prelude in
  match f with
  | Some e => fail CSigaction [sig; h] [] (Zpos e)
  | None =>
      if (sig <? 1) || (64 <? sig) || (sig =? SIGKILL) || (sig =? SIGSTOP)
      then fail CSigaction [sig; h] [] EINVAL
      else
        modify (upd_cur (fun p => pr_with_disp
                  (if h =? 0 then delete sig (pr_disp p)
                   else <[sig := if h =? 1 then DIgnore else DHandler]> (pr_disp p)) p)) ;>
        done CSigaction [sig; h] [] 0 []
  end.

(* pthread_sigmask: returns the error number (0 on success); does not touch errno *)
Definition sys_sigmask (how : Z) (newset : option (list Z)) : MW (Z * list Z) :=
  let args := how :: match newset with Some s => 1 :: s | None => [0] end in
  let* f := prelude in
  match f with
  | Some e => log CSigmask args [] (Zpos e) [] 0 ;> ret (Zpos e, [])
  | None =>
      let* w := get in
      let old := pr_mask (curp w) in
      match newset with
      | None => log CSigmask args [] 0 old 0 ;> ret (0, old)
      | Some s =>
          let m := if how =? SIG_SETMASK then norm_mask s
                   else if how =? SIG_BLOCK then norm_mask (old ++ s)
                   else if how =? SIG_UNBLOCK then filter (fun x => negb (memZ x s)) old
                   else old in
          if (how =? SIG_SETMASK) || (how =? SIG_BLOCK) || (how =? SIG_UNBLOCK) then
            modify (upd_cur (pr_with_mask m)) ;> log CSigmask args [] 0 old 0 ;> ret (0, old)
          else log CSigmask args [] EINVAL [] 0 ;> ret (EINVAL, [])
      end
  end.

(* ---- clock (cannot be failed: the library ignores its result) ---- *)
Definition sys_clock : MW (Z * Z) :=
  prelude ;>
  let* w := get in
  let sec := w_time w / 1000 in
  let nsec := (w_time w mod 1000) * 1000000 + w_subns w in
  log CClock [] [] 0 [sec; nsec] 0 ;> ret (sec, nsec).

(* ---- allocation ledger; block id 0 = NULL ---- *)
(* The ledger is the caller's process's heap; a forked child works on its own copy,
   so its calls are logged but do not touch the ledger. *)
Definition in_main (w : world) : bool := w_cur w =? w_main w.
Definition heap_alloc (c : callid) (args : list Z) (size : Z) : MW Z :=
  let* f := prelude in
  match f with
  | Some e => set_errno (Zpos e) ;> log c args [] 0 [] 0 ;> ret 0
  | None =>
      let* id := gets w_next_blk in
      modify (fun w => if in_main w then w_with_heap (<[id := (true, size)]> (w_heap w)) (id + 1) w
                       else w_with_heap (w_heap w) (id + 1) w) ;>
      log c args [] id [] 0 ;> ret id
  end.
Definition sys_malloc (n : Z) : MW Z := heap_alloc CMalloc [n] n.
Definition sys_calloc (k n : Z) : MW Z := heap_alloc CCalloc [k; n] (k * n).
Definition sys_strdup (s : str) : MW Z := heap_alloc CStrdup [zlen s + 1] (zlen s + 1).

Definition heap_live (id : Z) (w : world) : bool :=
  match w_heap w !! id with Some (true, _) => true | _ => false end.

(* free cannot fail; freeing a block that is not live is recorded with result -1 *)
Definition sys_free (id : Z) : MW unit :=
  prelude ;>
  if id =? 0 then log CFree [0] [] 0 [] 0 else
  let* w := get in
  if negb (in_main w) then log CFree [id] [] 0 [] 0 else
  if heap_live id w then
    modify (fun w => w_with_heap (<[id := (false, 0)]> (w_heap w)) (w_next_blk w) w) ;> log CFree [id] [] 0 [] 0
  else log CFree [id] [] (-1) [] 0.

Definition sys_realloc (id n : Z) : MW Z :=
  let* f := prelude in
  match f with
  | Some e => set_errno (Zpos e) ;> log CRealloc [id; n] [] 0 [] 0 ;> ret 0
  | None =>
      let* w := get in
      if negb (in_main w) then
        modify (fun w => w_with_heap (w_heap w) (w_next_blk w + 1) w) ;>
        log CRealloc [id; n] [] (w_next_blk w) [] 0 ;> ret (w_next_blk w)
      else if (id =? 0) || heap_live id w then
        let nid := w_next_blk w in
        modify (fun w => w_with_heap (<[nid := (true, n)]> (if id =? 0 then w_heap w else <[id := (false, 0)]> (w_heap w))) (nid + 1) w) ;>
        log CRealloc [id; n] [] nid [] 0 ;> ret nid
      else log CRealloc [id; n] [] (-1) [] 0 ;> ret 0
  end.

(* ---- environ (plain memory accesses in C: no tick, no event) ---- *)
Definition get_environ : MW (list str) := gets (fun w => pr_env (curp w)).
Definition set_environ (e : list str) : MW unit := modify (upd_cur (pr_with_env e)).
