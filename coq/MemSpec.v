(* MemSpec.v — C05, memory, whole histories: reproc_new, then ANY sequence of calls on the handle,
   then destroy, under EVERY fault plan: the caller's heap afterwards holds exactly the blocks it
   held before (the handle block, poll's scratch arrays, the program-path and environment copies
   of every start are all released). *)
From Verif Require Import Lib WorldSpec WorldSpec2 LibSpec LibSpec2 WaitSpec ParentSpec StartSpec StopSpec FdSpec HeapSpec.
From Coq Require Import Lia.
Local Open Scope Z_scope.

(* ---- the remaining ledger-neutral calls ---- *)
Lemma hk_sys_poll nm fds tmo : hk nm (sys_poll fds tmo).
Proof.
  unfold sys_poll. cbv zeta. apply hk_bind; [apply hk_prelude|]. intros [e|].
  { apply hk_bind; [apply hk_gets|]. intros l. apply hk_bind; [apply hk_set_errno|]. intros _.
    apply hk_bind; [apply hk_log|]. intros _. apply hk_ret. }
  intros w _. pose proof (hrel_block (poll_ready fds) tmo w) as HB.
  destruct (block_until (poll_ready fds) tmo w) as [w1|w1|w1|w1]; cbn [blocked_world] in HB; auto.
  all: rewrite run_log_ret; eapply hrel_trans; [exact HB|apply hrel_with_trace].
Qed.
Lemma hk_sys_kill nm pid sig : hk nm (sys_kill pid sig).
Proof.
  unfold sys_kill. apply hk_bind; [apply hk_prelude|]. intros [e|]; [apply hk_fail|].
  destruct (pid <=? 0); [apply hk_done|]. apply hk_bind; [apply hk_get|]. intros w0.
  destruct (w_procs w0 !! pid) as [q|]; [|apply hk_fail].
  destruct (pr_state q); [|apply hk_done|apply hk_fail].
  apply hk_bind; [|intros _; apply hk_done]. apply hk_modify. intros w. apply hrel_flat, flat_deliver.
Qed.
Lemma hk_expiry nm t d : hk nm (expiry t d).
Proof. unfold expiry. destruct (expiry_needs_clock t d); [|apply hk_ret]. apply hk_bind; [apply hk_now|intros n; apply hk_ret]. Qed.
Lemma hk_fed_loop nm srcs : forall i e mn, hk nm (fed_loop srcs i e mn).
Proof.
  induction srcs as [|[[p|] x] r IH]; intros i e mn; cbn [fed_loop]; [apply hk_ret| |apply IH].
  apply hk_bind; [apply hk_expiry|]. intros cur.
  destruct (cur =? REPROC_DEADLINE); [apply hk_ret|]. destruct (cur =? REPROC_INFINITE); [apply IH|].
  destruct ((mn =? REPROC_INFINITE) || (cur <? mn)); apply IH.
Qed.
Lemma hk_pipe_read nm p size : hk nm (pipe_read p size).
Proof.
  unfold pipe_read. apply hk_bind; [apply hk_sys_read|]. intros [q qs].
  destruct ((q =? 0) && (0 <? size)); [apply hk_ret|]. destruct (q <? 0); [|apply hk_ret].
  apply hk_bind; [apply hk_get_errno|]. intros e. apply hk_ret.
Qed.
Lemma hk_reproc_read nm p stream hb size : hk nm (reproc_read p stream hb size).
Proof.
  unfold reproc_read. destruct (h_status p =? STATUS_IN_CHILD); [apply hk_ret|]. destruct (negb _); [apply hk_ret|].
  destruct (negb hb); [apply hk_ret|]. cbv zeta. destruct (_ =? PIPE_INVALID); [apply hk_ret|].
  apply hk_bind; [apply hk_pipe_read|]. intros [r rs]. destruct (r =? REPROC_EPIPE); [|apply hk_ret].
  apply hk_bind; [apply hk_pipe_destroy|]. intros np. apply hk_ret.
Qed.
Lemma hk_reproc_write nm p hb data : hk nm (reproc_write p hb data).
Proof.
  unfold reproc_write. destruct (h_status p =? STATUS_IN_CHILD); [apply hk_ret|].
  destruct (negb hb). { destruct (runs_len data =? 0); apply hk_ret. }
  destruct (h_in p =? PIPE_INVALID); [apply hk_ret|].
  apply hk_bind; [apply hk_pipe_write|]. intros r. destruct (r =? REPROC_EPIPE); [|apply hk_ret].
  apply hk_bind; [apply hk_pipe_destroy|]. intros np. apply hk_ret.
Qed.
Lemma hk_reproc_close nm p stream : hk nm (reproc_close p stream).
Proof.
  unfold reproc_close. destruct (h_status p =? STATUS_IN_CHILD); [apply hk_ret|].
  destruct (stream =? REPROC_STREAM_IN). { apply hk_bind; [apply hk_pipe_destroy|]. intros n. apply hk_ret. }
  destruct (stream =? REPROC_STREAM_OUT). { apply hk_bind; [apply hk_pipe_destroy|]. intros n. apply hk_ret. }
  destruct (stream =? REPROC_STREAM_ERR). { apply hk_bind; [apply hk_pipe_destroy|]. intros n. apply hk_ret. }
  apply hk_ret.
Qed.
Lemma hk_signal nm pid sig : hk nm (let* r := sys_kill pid sig in if r <? 0 then let* e := get_errno in ret (- e) else ret 0).
Proof. apply hk_bind; [apply hk_sys_kill|]. intros r. destruct (r <? 0); [|apply hk_ret]. apply hk_bind; [apply hk_get_errno|]. intros e. apply hk_ret. Qed.
Lemma hk_reproc_terminate nm p : hk nm (reproc_terminate p).
Proof.
  unfold reproc_terminate. destruct (h_status p =? STATUS_IN_CHILD); [apply hk_ret|]. destruct (h_status p =? STATUS_NOT_STARTED); [apply hk_ret|].
  destruct (0 <=? h_status p); [apply hk_ret|]. apply hk_signal.
Qed.
Lemma hk_reproc_kill nm p : hk nm (reproc_kill p).
Proof.
  unfold reproc_kill. destruct (h_status p =? STATUS_IN_CHILD); [apply hk_ret|]. destruct (h_status p =? STATUS_NOT_STARTED); [apply hk_ret|].
  destruct (0 <=? h_status p); [apply hk_ret|]. apply hk_signal.
Qed.

(* ---- allocate / release pairs ---- *)
Lemma H_free0 L own w u w' : hq L own w -> sys_free 0 w = Ret u w' -> hq L own w'.
Proof.
  intros Hq E. unfold sys_free in E. apply bind_inv in E as (f & w0 & Ep & E).
  pose proof (H_neutral _ _ _ _ _ _ (hk_prelude false) Hq Ep) as H0.
  change (0 =? 0) with true in E. cbv iota in E. exact (H_neutral _ _ _ _ _ _ (hk_log false _ _ _ _ _ _) H0 E).
Qed.
Lemma H_free_head L id base w u w' : hq L (id :: base) w -> sys_free id w = Ret u w' -> hq L base w'.
Proof.
  intros Hq E. pose proof (H_free _ _ _ _ _ _ Hq (or_intror (or_introl eq_refl)) E) as H1.
  eapply hq_same; [exact H1|intros x; symmetry; apply drop_head, (hq_head_notin _ _ _ _ Hq)|].
  destruct Hq as (_ & _ & _ & _ & Hn & _). inversion Hn; assumption.
Qed.
Lemma O_pipe_poll L own srcs tmo w x w' : hq L own w -> pipe_poll srcs tmo w = Ret x w' -> hq L own w'.
Proof.
  intros Hq E. unfold pipe_poll in E. apply bind_inv in E as (blk & w1 & Ea & E).
  destruct (H_alloc _ _ _ _ _ _ _ _ Hq Ea) as [[-> H1]|[Hnz H1]].
  - change (0 =? 0) with true in E. cbv iota in E.
    apply bind_inv in E as (e & w1' & Eg & E). apply gets_inv in Eg as [-> ->].
    apply bind_inv in E as (u & w2 & Ef & E). apply ret_inv in E as [_ ->]. exact (H_free0 _ _ _ _ _ H1 Ef).
  - destruct (Z.eqb_spec blk 0); [contradiction|].
    apply bind_inv in E as ([r rev] & w2 & Ep & E). pose proof (H_neutral _ _ _ _ _ _ (hk_sys_poll false _ _) H1 Ep) as H2.
    destruct (r <? 0).
    + apply bind_inv in E as (e & w2' & Eg & E). apply gets_inv in Eg as [-> ->].
      apply bind_inv in E as (u & w3 & Ef & E). apply ret_inv in E as [_ ->]. exact (H_free_head _ _ _ _ _ _ H2 Ef).
    + apply bind_inv in E as (u & w3 & Ef & E). apply ret_inv in E as [_ ->]. exact (H_free_head _ _ _ _ _ _ H2 Ef).
Qed.
Lemma O_reproc_poll L own srcs tmo w x w' : hq L own w -> reproc_poll srcs tmo w = Ret x w' -> hq L own w'.
Proof.
  intros Hq E. unfold reproc_poll in E. destruct srcs as [|s0 sr]; [apply ret_inv in E as [_ ->]; exact Hq|]. set (srcs := s0 :: sr) in *.
  apply bind_inv in E as (earliest & w1 & E1 & E). pose proof (H_neutral _ _ _ _ _ _ (hk_fed_loop false _ _ _ _) Hq E1) as H1. cbv zeta in E.
  apply bind_inv in E as (first & w2 & E2 & E). pose proof (H_neutral _ _ _ _ _ _ (hk_expiry false _ _) H1 E2) as H2.
  destruct (first =? REPROC_DEADLINE). { apply ret_inv in E as [_ ->]. exact H2. }
  apply bind_inv in E as (blk & w3 & Ea & E).
  destruct (H_alloc _ _ _ _ _ _ _ _ H2 Ea) as [[-> H3]|[Hnz H3]].
  { change (0 =? 0) with true in E. cbv iota in E. apply ret_inv in E as [_ ->]. exact H3. }
  destruct (Z.eqb_spec blk 0); [contradiction|].
  assert (Fin : forall (v : Z * option (list Z)) w4, hq L (blk :: own) w4 -> (sys_free blk;> ret v) w4 = Ret x w' -> hq L own w').
  { intros v w4 H4 E4. apply bind_inv in E4 as (u & w5 & Ef & E4). apply ret_inv in E4 as [_ ->]. exact (H_free_head _ _ _ _ _ _ H4 Ef). }
  destruct (negb (existsb _ _)); [exact (Fin _ _ H3 E)|].
  apply bind_inv in E as ([r rev] & w4 & Ep & E). pose proof (O_pipe_poll _ _ _ _ _ _ _ H3 Ep) as H4.
  destruct rev as [rev|]; [|exact (Fin _ _ H4 E)].
  destruct ((r =? 0) && negb (first =? tmo)); [exact (Fin _ _ H4 E)|].
  destruct (0 <? r); exact (Fin _ _ H4 E).
Qed.
Lemma O_reproc_wait L own p t w x w' : hq L own w -> reproc_wait p t w = Ret x w' -> hq L own w'.
Proof.
  intros Hq E. unfold reproc_wait in E.
  destruct (h_status p =? STATUS_IN_CHILD). { apply ret_inv in E as [_ ->]. exact Hq. }
  destruct (h_status p =? STATUS_NOT_STARTED). { apply ret_inv in E as [_ ->]. exact Hq. }
  destruct (0 <=? h_status p). { apply ret_inv in E as [_ ->]. exact Hq. }
  apply bind_inv in E as (tmo & w1 & E1 & E).
  assert (H1 : hq L own w1).
  { refine (H_neutral _ _ _ _ _ _ _ Hq E1). destruct (t =? REPROC_DEADLINE); [|apply hk_ret].
    apply hk_bind; [apply hk_expiry|]. intros t0. apply hk_ret. }
  apply bind_inv in E as ([r2 rev] & w2 & E2 & E). cbv beta iota in E.
  pose proof (O_pipe_poll _ _ _ _ _ _ _ H1 E2) as H2.
  destruct (r2 <=? 0). { apply ret_inv in E as [_ ->]. exact H2. }
  apply bind_inv in E as (r3 & w3 & E3 & E).
  assert (H3 : hq L own w3).
  { refine (H_neutral _ _ _ _ _ _ _ H2 E3). unfold process_wait. apply hk_bind; [apply hk_sys_waitpid|]. intros [rw st].
    destruct (rw <? 0); [|apply hk_ret]. apply hk_bind; [apply hk_get_errno|]. intros e. apply hk_ret. }
  destruct (r3 <? 0). { apply ret_inv in E as [_ ->]. exact H3. }
  apply bind_inv in E as (xx & w4 & E4 & E). apply ret_inv in E as [_ ->].
  exact (H_neutral _ _ _ _ _ _ (hk_pipe_destroy false _) H3 E4).
Qed.
Lemma O_stop_loop L own acts : forall p r0 w x w', hq L own w -> stop_loop acts p r0 w = Ret x w' -> hq L own w'.
Proof.
  induction acts as [|a rest IH]; intros p r0 w x w' H E; cbn [stop_loop] in E.
  { apply ret_inv in E as [_ ->]. exact H. }
  assert (Hgo : forall (m : MW Z), hk false m ->
            (let* r1 := m in if r1 <? 0 then ret (r1, p) else
             let* '(r2, p2) := reproc_wait p (sa_timeout a) in
             if negb (r2 =? REPROC_ETIMEDOUT) then ret (r2, p2) else stop_loop rest p2 r2) w = Ret x w' -> hq L own w').
  { intros m Hm Em. apply bind_inv in Em as (r1 & w1 & E1 & Em). pose proof (H_neutral _ _ _ _ _ _ Hm H E1) as H1.
    destruct (r1 <? 0). { apply ret_inv in Em as [_ ->]. exact H1. }
    apply bind_inv in Em as ([r2 p2] & w2 & E2 & Em). cbv beta iota in Em.
    pose proof (O_reproc_wait _ _ _ _ _ _ _ H1 E2) as H2.
    destruct (negb (r2 =? REPROC_ETIMEDOUT)). { apply ret_inv in Em as [_ ->]. exact H2. }
    exact (IH _ _ _ _ _ H2 Em). }
  destruct (stop_action_kind (sa_action a)).
  - exact (IH _ _ _ _ _ H E).
  - apply Hgo in E; [exact E|apply hk_ret].
  - apply Hgo in E; [exact E|apply hk_reproc_terminate].
  - apply Hgo in E; [exact E|apply hk_reproc_kill].
  - apply Hgo in E; [exact E|apply hk_ret].
Qed.
Lemma O_reproc_stop L own p acts w x w' : hq L own w -> reproc_stop p acts w = Ret x w' -> hq L own w'.
Proof.
  intros H E. unfold reproc_stop in E.
  destruct (h_status p =? STATUS_IN_CHILD). { apply ret_inv in E as [_ ->]. exact H. }
  destruct (h_status p =? STATUS_NOT_STARTED). { apply ret_inv in E as [_ ->]. exact H. }
  cbv zeta in E. exact (O_stop_loop _ _ _ _ _ _ _ _ H E).
Qed.

(* ---- the handle block ---- *)
(* a block the call sequence owns can be counted among the blocks live "before" ... *)
Lemma hq_absorb L b w : hq L [b] w -> hq (fun id => L id || (id =? b)) [] w.
Proof.
  intros (Hm & Hb & Hl & Ho & Hn & Hf). split; [exact Hm|]. split; [exact Hb|]. split.
  - intros id. rewrite Hl. cbn [memZ existsb]. rewrite !orb_false_r. reflexivity.
  - split; [intros id X; discriminate|]. split; [constructor|].
    intros id Hid. rewrite (Hf id Hid). destruct (Z.eqb_spec id b) as [->|]; [|reflexivity].
    destruct (Ho b) as [_ Hr]; [cbn; rewrite Z.eqb_refl; reflexivity|lia].
Qed.
(* ... and releasing it takes it out again *)
Lemma H_free_L L w id u w' : hq L [] w -> L id = true -> id <> 0 -> sys_free id w = Ret u w' ->
  hq (fun x => L x && negb (x =? id)) [] w'.
Proof.
  intros Hq HL Hnz E. unfold sys_free in E. apply bind_inv in E as (f & w0 & Ep & E).
  pose proof (H_neutral _ _ _ _ _ _ (hk_prelude false) Hq Ep) as H0.
  destruct (Z.eqb_spec id 0); [contradiction|].
  apply bind_inv in E as (wg & w0' & Eg & E). apply get_inv in Eg as [-> ->].
  pose proof H0 as (Hm & Hb & Hl & Ho & Hn & Hf).
  assert (Em : in_main w0 = true) by (unfold in_main; apply Z.eqb_eq; exact Hm).
  rewrite Em in E. cbn [negb] in E.
  assert (Hlive : heap_live id w0 = true) by (rewrite Hl, HL; reflexivity).
  rewrite Hlive in E.
  change ((modify (fun w1 : world => w_with_heap (<[id := (false, 0)]> (w_heap w1)) (w_next_blk w1) w1);> log CFree [id] [] 0 [] 0) w0)
    with (Ret tt (w_with_trace (mkev CFree [id] [] 0 [] 0 (w_with_heap (<[id := (false, 0)]> (w_heap w0)) (w_next_blk w0) w0) :: w_trace w0) (w_with_heap (<[id := (false, 0)]> (w_heap w0)) (w_next_blk w0) w0))) in E.
  injection E as _ <-.
  unfold hq. cbn [w_cur w_main w_next_blk w_with_trace w_with_heap].
  split; [exact Hm|]. split; [exact Hb|]. split.
  - intros x. unfold heap_live. cbn [w_heap w_with_trace w_with_heap memZ existsb]. rewrite orb_false_r.
    destruct (Z.eqb_spec x id) as [Hxe|Hx].
    + rewrite Hxe, lookup_insert. cbn [negb]. rewrite andb_false_r. reflexivity.
    + rewrite lookup_insert_ne by congruence. cbn [negb]. rewrite andb_true_r.
      specialize (Hl x). cbn [memZ existsb] in Hl. rewrite orb_false_r in Hl. exact Hl.
  - split; [intros x X; discriminate|]. split; [constructor|]. intros x Hx. rewrite (Hf x Hx). reflexivity.
Qed.

(* ---- the handle keeps its block number ---- *)
Lemma post_start_finish_blk p r o cin cout cerr cexit :
  post (start_finish p r o cin cout cerr cexit) (fun res => h_blk (snd res) = h_blk p).
Proof.
  unfold start_finish. cbv zeta. apply post_bind_any. intros _. apply post_bind_any. intros co. apply post_bind_any. intros ce.
  apply post_bind_any. intros _. destruct (r <? 0).
  - apply post_bind_any. intros a. apply post_bind_any. intros b. apply post_bind_any. intros c. apply post_bind_any. intros d.
    apply post_ret. reflexivity.
  - destruct (r =? 0); apply post_ret; reflexivity.
Qed.
Lemma post_reproc_start_blk p argv o0 src k : post (reproc_start p argv o0 src k) (fun res => h_blk (snd res) = h_blk p).
Proof.
  unfold reproc_start. destruct (negb _); [apply post_ret; reflexivity|].
  destruct (parse_options o0 (argv_form_of argv)) as [o|]; [|apply post_start_finish_blk].
  apply post_bind_any. intros [[[r1 pin] cin] rdi]. cbv beta iota zeta.
  destruct (r1 <? 0); [exact (post_start_finish_blk _ _ _ _ _ _ _)|].
  apply post_bind_any. intros [[[r2 pout] cout] rdo]. cbv beta iota zeta.
  destruct (r2 <? 0); [exact (post_start_finish_blk _ _ _ _ _ _ _)|].
  apply post_bind_any. intros [[[r3 perr] cerr] rde]. cbv beta iota zeta.
  destruct (r3 <? 0); [exact (post_start_finish_blk _ _ _ _ _ _ _)|].
  apply post_bind_any. intros [r4 [[pexit cexit]|]]; cbv beta iota zeta; [|exact (post_start_finish_blk _ _ _ _ _ _ _)].
  apply post_bind_any. intros [r5 pin5]. cbv beta iota zeta.
  destruct (r5 <? 0); [exact (post_start_finish_blk _ _ _ _ _ _ _)|].
  apply post_bind_any. intros [r6 h6]. cbv beta iota zeta.
  destruct (r6 <? 0); [exact (post_start_finish_blk _ _ _ _ _ _ _)|].
  apply post_bind_any. intros dl. exact (post_start_finish_blk _ _ _ _ _ _ _).
Qed.
Lemma post_reproc_wait_blk p t : post (reproc_wait p t) (fun res => h_blk (snd res) = h_blk p).
Proof.
  unfold reproc_wait. destruct (h_status p =? STATUS_IN_CHILD); [apply post_ret; reflexivity|].
  destruct (h_status p =? STATUS_NOT_STARTED); [apply post_ret; reflexivity|]. destruct (0 <=? h_status p); [apply post_ret; reflexivity|].
  apply post_bind_any. intros tmo. apply post_bind_any. intros [r rev]. destruct (r <=? 0); [apply post_ret; reflexivity|].
  apply post_bind_any. intros r3. destruct (r3 <? 0); [apply post_ret; reflexivity|]. apply post_bind_any. intros x. apply post_ret. reflexivity.
Qed.
Lemma post_stop_loop_blk acts : forall p r0, post (stop_loop acts p r0) (fun res => h_blk (snd res) = h_blk p).
Proof.
  induction acts as [|a rest IH]; intros p r0; cbn [stop_loop]; [apply post_ret; reflexivity|].
  assert (Hgo : forall (m : MW Z), post (let* r1 := m in if r1 <? 0 then ret (r1, p) else
             let* '(r2, p2) := reproc_wait p (sa_timeout a) in
             if negb (r2 =? REPROC_ETIMEDOUT) then ret (r2, p2) else stop_loop rest p2 r2) (fun res => h_blk (snd res) = h_blk p)).
  { intros m. apply post_bind_any. intros r1. destruct (r1 <? 0); [apply post_ret; reflexivity|].
    eapply post_bind; [apply post_reproc_wait_blk|]. intros [r2 p2] Hb. cbn [snd] in Hb.
    destruct (negb (r2 =? REPROC_ETIMEDOUT)); [apply post_ret; exact Hb|].
    eapply post_weaken; [|apply IH]. intros res Hr. cbn beta in Hr. congruence. }
  destruct (stop_action_kind (sa_action a)); [apply IH|apply Hgo..].
Qed.
Lemma post_reproc_stop_blk p acts : post (reproc_stop p acts) (fun res => h_blk (snd res) = h_blk p).
Proof.
  unfold reproc_stop. destruct (h_status p =? STATUS_IN_CHILD); [apply post_ret; reflexivity|].
  destruct (h_status p =? STATUS_NOT_STARTED); [apply post_ret; reflexivity|]. cbv zeta. apply post_stop_loop_blk.
Qed.
Lemma post_reproc_read_blk p stream hb size : post (reproc_read p stream hb size) (fun res => h_blk (snd res) = h_blk p).
Proof.
  unfold reproc_read. destruct (h_status p =? STATUS_IN_CHILD); [apply post_ret; reflexivity|].
  destruct (negb _); [apply post_ret; reflexivity|]. destruct (negb hb); [apply post_ret; reflexivity|].
  cbv zeta. destruct (_ =? PIPE_INVALID); [apply post_ret; reflexivity|].
  apply post_bind_any. intros [r rs]. destruct (r =? REPROC_EPIPE); [|apply post_ret; reflexivity].
  apply post_bind_any. intros np. apply post_ret. destruct (stream =? REPROC_STREAM_OUT); reflexivity.
Qed.
Lemma post_reproc_write_blk p hb data : post (reproc_write p hb data) (fun res => h_blk (snd res) = h_blk p).
Proof.
  unfold reproc_write. destruct (h_status p =? STATUS_IN_CHILD); [apply post_ret; reflexivity|].
  destruct (negb hb). { destruct (runs_len data =? 0); apply post_ret; reflexivity. }
  destruct (h_in p =? PIPE_INVALID); [apply post_ret; reflexivity|].
  apply post_bind_any. intros r. destruct (r =? REPROC_EPIPE); [|apply post_ret; reflexivity]. apply post_bind_any. intros np. apply post_ret. reflexivity.
Qed.
Lemma post_reproc_close_blk p stream : post (reproc_close p stream) (fun res => h_blk (snd res) = h_blk p).
Proof.
  unfold reproc_close. destruct (h_status p =? STATUS_IN_CHILD); [apply post_ret; reflexivity|].
  destruct (stream =? REPROC_STREAM_IN); [apply post_bind_any; intros n; apply post_ret; reflexivity|].
  destruct (stream =? REPROC_STREAM_OUT); [apply post_bind_any; intros n; apply post_ret; reflexivity|].
  destruct (stream =? REPROC_STREAM_ERR); [apply post_bind_any; intros n; apply post_ret; reflexivity|apply post_ret; reflexivity].
Qed.
Lemma post_drain_loop_blk fuel : forall p s, post (drain_loop fuel p s) (fun res => h_blk (snd (fst res)) = h_blk p).
Proof.
  induction fuel as [|f IH]; intros p s; cbn [drain_loop]; [intros w a w' E; discriminate|].
  apply post_bind_any. intros [r1 evs]. destruct (r1 <? 0); [apply post_ret; reflexivity|].
  cbv zeta. destruct (has_bit _ REPROC_EVENT_DEADLINE); [apply post_ret; reflexivity|].
  eapply post_bind; [apply post_reproc_read_blk|]. intros [[r2 rs] p2] B2. cbn [snd] in B2.
  destruct ((r2 <? 0) && negb (r2 =? REPROC_EPIPE)); [apply post_ret; exact B2|].
  cbv zeta. destruct (sink_call _ _ _ _ s) as [v s2].
  destruct (negb (v =? 0)); [apply post_ret; exact B2|].
  eapply post_weaken; [|apply IH]. intros res H. cbn beta in *. congruence.
Qed.
Lemma post_reproc_drain_blk fuel p s : post (reproc_drain fuel p s) (fun res => h_blk (snd (fst res)) = h_blk p).
Proof.
  unfold reproc_drain. destruct (sink_call 0 _ _ _ s) as [v s1]. destruct (negb (v =? 0)); [apply post_ret; reflexivity|].
  destruct (sink_call 1 _ _ _ s1) as [v2 s2]. destruct (negb (v2 =? 0)); [apply post_ret; reflexivity|]. apply post_drain_loop_blk.
Qed.
Lemma post_run_hop_blk ck p op : post (run_hop ck p op) (fun p' => h_blk p' = h_blk p).
Proof.
  destruct op; cbn [run_hop].
  - eapply post_bind; [apply post_reproc_start_blk|]. intros [r p1] H. apply post_ret. exact H.
  - eapply post_bind; [apply post_reproc_read_blk|]. intros [[r rs] p1] H. apply post_ret. exact H.
  - eapply post_bind; [apply post_reproc_write_blk|]. intros [r p1] H. apply post_ret. exact H.
  - eapply post_bind; [apply post_reproc_close_blk|]. intros [r p1] H. apply post_ret. exact H.
  - apply post_bind_any. intros _. apply post_ret. reflexivity.
  - eapply post_bind; [apply post_reproc_wait_blk|]. intros [r p1] H. apply post_ret. exact H.
  - apply post_bind_any. intros _. apply post_ret. reflexivity.
  - apply post_bind_any. intros _. apply post_ret. reflexivity.
  - eapply post_bind; [apply post_reproc_stop_blk|]. intros [r p1] H. apply post_ret. exact H.
  - eapply post_bind; [apply post_reproc_drain_blk|]. intros [[r p1] s1] H. apply post_ret. exact H.
Qed.

Lemma O_drain_loop L own fuel : forall p s w r p' s' w', hq L own w -> drain_loop fuel p s w = Ret (r, p', s') w' -> hq L own w' /\ h_blk p' = h_blk p.
Proof.
  induction fuel as [|f IH]; intros p s w r p' s' w' H E; cbn [drain_loop] in E; [discriminate|].
  apply bind_inv in E as ([r1 evs] & w1 & E1 & E). cbv beta iota in E.
  pose proof (O_reproc_poll _ _ _ _ _ _ _ H E1) as H1.
  destruct (r1 <? 0). { apply ret_inv in E as [E ->]. injection E as _ -> _. auto. }
  cbv zeta in E. destruct (has_bit _ REPROC_EVENT_DEADLINE). { apply ret_inv in E as [E ->]. injection E as _ -> _. auto. }
  apply bind_inv in E as ([[r2 rs] p2] & w2 & E2 & E). cbv beta iota in E.
  pose proof (H_neutral _ _ _ _ _ _ (hk_reproc_read false _ _ _ _) H1 E2) as H2.
  pose proof (post_reproc_read_blk _ _ _ _ _ _ _ E2) as B2. cbn [snd] in B2.
  destruct ((r2 <? 0) && negb (r2 =? REPROC_EPIPE)). { apply ret_inv in E as [E ->]. injection E as _ -> _. auto. }
  cbv zeta in E. destruct (sink_call _ _ _ _ s) as [v s2].
  destruct (negb (v =? 0)). { apply ret_inv in E as [E ->]. injection E as _ -> _. auto. }
  destruct (IH _ _ _ _ _ _ _ H2 E) as [A B]. split; [exact A|congruence].
Qed.
Lemma O_reproc_drain L own fuel p s w r p' s' w' : hq L own w -> reproc_drain fuel p s w = Ret (r, p', s') w' -> hq L own w' /\ h_blk p' = h_blk p.
Proof.
  intros H E. unfold reproc_drain in E. destruct (sink_call 0 _ _ _ s) as [v s1].
  destruct (negb (v =? 0)). { apply ret_inv in E as [E ->]. injection E as _ -> _. auto. }
  destruct (sink_call 1 _ _ _ s1) as [v2 s2].
  destruct (negb (v2 =? 0)). { apply ret_inv in E as [E ->]. injection E as _ -> _. auto. }
  exact (O_drain_loop _ _ _ _ _ _ _ _ _ _ H E).
Qed.

(* ---- histories ---- *)
Lemma O_run_hop_gen L c ck p op w p' w' : WorldSpec2.wf w -> w_cur w = c -> 0 <= c -> hq L [] w ->
  (forall q, kp c (ck q)) -> (forall q, hk true (ck q)) ->
  run_hop ck p op w = Ret p' w' -> hq L [] w'.
Proof.
  intros W C Hpos Hq Hkp Hkh E.
  destruct op; cbn [run_hop] in E.
  - apply bind_inv in E as ([r p1] & w1 & E1 & E). apply ret_inv in E as [_ ->].
    exact (reproc_start_hq _ _ _ _ _ _ _ _ _ _ W ltac:(rewrite C; exact Hpos) Hq ltac:(rewrite C; exact Hkp) Hkh E1).
  - apply bind_inv in E as ([[r rs] p1] & w1 & E1 & E). apply ret_inv in E as [_ ->]. exact (H_neutral _ _ _ _ _ _ (hk_reproc_read false _ _ _ _) Hq E1).
  - apply bind_inv in E as ([r p1] & w1 & E1 & E). apply ret_inv in E as [_ ->]. exact (H_neutral _ _ _ _ _ _ (hk_reproc_write false _ _ _) Hq E1).
  - apply bind_inv in E as ([r p1] & w1 & E1 & E). apply ret_inv in E as [_ ->]. exact (H_neutral _ _ _ _ _ _ (hk_reproc_close false _ _) Hq E1).
  - apply bind_inv in E as (x & w1 & E1 & E). apply ret_inv in E as [_ ->]. exact (O_reproc_poll _ _ _ _ _ _ _ Hq E1).
  - apply bind_inv in E as ([r p1] & w1 & E1 & E). apply ret_inv in E as [_ ->]. exact (O_reproc_wait _ _ _ _ _ _ _ Hq E1).
  - apply bind_inv in E as (x & w1 & E1 & E). apply ret_inv in E as [_ ->]. exact (H_neutral _ _ _ _ _ _ (hk_reproc_terminate false _) Hq E1).
  - apply bind_inv in E as (x & w1 & E1 & E). apply ret_inv in E as [_ ->]. exact (H_neutral _ _ _ _ _ _ (hk_reproc_kill false _) Hq E1).
  - apply bind_inv in E as ([r p1] & w1 & E1 & E). apply ret_inv in E as [_ ->]. exact (O_reproc_stop _ _ _ _ _ _ _ Hq E1).
  - apply bind_inv in E as ([[r p1] s1] & w1 & E1 & E). apply ret_inv in E as [_ ->]. exact (proj1 (O_reproc_drain _ _ _ _ _ _ _ _ _ _ Hq E1)).
Qed.
Lemma O_run_hop L T c ck p op w p' w' : HN T c p w -> hq L [] w -> (forall q, kp c (ck q)) -> (forall q, hk true (ck q)) ->
  run_hop ck p op w = Ret p' w' -> hq L [] w'.
Proof. intros HNn. apply O_run_hop_gen; apply HNn. Qed.
Lemma O_run_hops L T c ck ops : forall p w p' w', HN T c p w -> hq L [] w -> (forall q, kp c (ck q)) -> (forall q, hk true (ck q)) ->
  run_hops ck p ops w = Ret p' w' -> HN T c p' w' /\ hq L [] w' /\ h_blk p' = h_blk p.
Proof.
  induction ops as [|op rest IH]; intros p w p' w' HNn Hq Hkp Hkh E; cbn [run_hops] in E.
  - apply ret_inv in E as [-> ->]. auto.
  - apply bind_inv in E as (p1 & w1 & E1 & E).
    pose proof (HN_run_hop _ _ _ _ _ _ _ _ HNn Hkp E1) as HN1.
    pose proof (O_run_hop _ _ _ _ _ _ _ _ _ HNn Hq Hkp Hkh E1) as Hq1.
    pose proof (post_run_hop_blk ck p op _ _ _ E1) as B1. cbn beta in B1.
    destruct (IH _ _ _ _ HN1 Hq1 Hkp Hkh E) as (A & B & Cc). split; [exact A|]. split; [exact B|congruence].
Qed.
Lemma O_reproc_destroy L p w u w' : hq L [] w -> L (h_blk p) = true -> h_blk p <> 0 -> reproc_destroy p w = Ret u w' ->
  hq (fun x => L x && negb (x =? h_blk p)) [] w'.
Proof.
  intros Hq HL Hnz E. unfold reproc_destroy in E.
  apply bind_inv in E as (p1 & w1 & E1 & E).
  assert (H1 : hq L [] w1 /\ h_blk p1 = h_blk p).
  { destruct (h_status p =? STATUS_IN_PROGRESS).
    - apply bind_inv in E1 as ([r0 p0] & w0 & E0 & E1). apply ret_inv in E1 as [-> ->].
      split; [exact (O_reproc_stop _ _ _ _ _ _ _ Hq E0)|exact (post_reproc_stop_blk _ _ _ _ _ E0)].
    - apply ret_inv in E1 as [-> ->]. auto. }
  destruct H1 as [H1 B1].
  apply bind_inv in E as (u1 & w2 & E2 & E). pose proof (H_neutral _ _ _ _ _ _ (hk_pipe_destroy false _) H1 E2) as H2.
  apply bind_inv in E as (u2 & w3 & E3 & E). pose proof (H_neutral _ _ _ _ _ _ (hk_pipe_destroy false _) H2 E3) as H3.
  apply bind_inv in E as (u3 & w4 & E4 & E). pose proof (H_neutral _ _ _ _ _ _ (hk_pipe_destroy false _) H3 E4) as H4.
  apply bind_inv in E as (u4 & w5 & E5 & E). pose proof (H_neutral _ _ _ _ _ _ (hk_pipe_destroy false _) H4 E5) as H5.
  apply bind_inv in E as (u5 & w6 & E6 & E). pose proof (H_neutral _ _ _ _ _ _ (hk_pipe_destroy false _) H5 E6) as H6.
  apply bind_inv in E as (u6 & w7 & E7 & E). pose proof (H_neutral _ _ _ _ _ _ (hk_pipe_destroy false _) H6 E7) as H7.
  rewrite B1 in E. exact (H_free_L _ _ _ _ _ H7 HL Hnz E).
Qed.

(* THE THEOREM, memory, histories: reproc_new, then ANY sequence of calls on the new handle, then
   destroy -- every fault plan, allocation failures at any point included -- leaves the caller's
   heap with exactly the blocks it had: the handle block, every start's program-path and
   environment copies, every poll's scratch array are released, each exactly once *)
Theorem history_releases_memory ck ops w u w' :
  WorldSpec2.wf w -> 0 <= w_cur w -> w_cur w = w_main w -> 0 < w_next_blk w ->
  (forall id, w_next_blk w <= id -> heap_live id w = false) ->
  (forall q, kp (w_cur w) (ck q)) -> (forall q, hk true (ck q)) ->
  (let* np := reproc_new in
   match np with None => ret tt | Some p => let* p' := run_hops ck p ops in reproc_destroy p' end) w = Ret u w' ->
  forall id, heap_live id w' = heap_live id w.
Proof.
  intros W Hpos Hmain Hnb Hhw Hkp Hkh E.
  set (L := fun id => heap_live id w).
  pose proof (hq_start w Hmain Hnb Hhw) as Hq0. fold L in Hq0.
  apply bind_inv in E as (np & w1 & E1 & E). unfold reproc_new in E1.
  apply bind_inv in E1 as (b & w1' & Ea & E1).
  pose proof (pc_run _ _ _ _ (pc_heap_alloc _ _ _) W Ea) as P1.
  destruct (H_alloc _ _ _ _ _ _ _ _ Hq0 Ea) as [[-> H1]|[Hnz H1]].
  { change (0 =? 0) with true in E1. cbv iota in E1. apply ret_inv in E1 as [-> ->]. apply ret_inv in E as [_ ->].
    exact (hq_end _ _ H1). }
  destruct (Z.eqb_spec b 0); [contradiction|]. apply ret_inv in E1 as [-> ->].
  apply bind_inv in E as (p' & w2 & E2 & E).
  assert (HN1 : HN (tb w1') (w_cur w1') (rp_new b) w1').
  { apply HN_fresh; [apply P1| |exact (NB_mono _ _ P1 Hnb)|apply fresh_rp_new]. destruct P1 as (_ & C1 & _). rewrite C1. exact Hpos. }
  assert (C1 : w_cur w1' = w_cur w) by apply P1.
  pose proof (hq_absorb _ _ _ H1) as H1'.
  destruct (O_run_hops _ _ _ _ _ _ _ _ _ HN1 H1' ltac:(rewrite C1; exact Hkp) Hkh E2) as (_ & H2 & B2).
  cbn [h_blk rp_new] in B2.
  assert (Lb : L b = false). { destruct H1 as (_ & _ & _ & Ho & _). apply (Ho b). cbn. rewrite Z.eqb_refl. reflexivity. }
  pose proof (O_reproc_destroy _ _ _ _ _ H2 ltac:(rewrite B2, Z.eqb_refl; apply orb_true_r) ltac:(rewrite B2; exact Hnz) E) as H3.
  intros id. rewrite (hq_end _ _ H3 id). rewrite B2. fold (L id).
  destruct (Z.eqb_spec id b) as [->|]; cbn [negb]; [rewrite Lb; reflexivity|]. rewrite orb_false_r, andb_true_r. reflexivity.
Qed.

(* ---- a failed start, all three ledgers at once ---- *)
Theorem failed_start_leaves_nothing p argv o src ck w r p' w' :
  WorldSpec2.wf w -> 0 <= w_cur w -> w_cur w = w_main w -> 0 < w_next_blk w ->
  (forall id, w_next_blk w <= id -> heap_live id w = false) ->
  (forall q, kp (w_cur w) (ck q)) -> (forall q, hk true (ck q)) -> fresh_handle p ->
  reproc_start p argv o src ck w = Ret (r, p') w' -> r < 0 ->
  pr_fds (curp w') = pr_fds (curp w) /\ (forall id, heap_live id w' = heap_live id w) /\ fresh_handle p' /\ h_blk p' = h_blk p.
Proof.
  intros W Hpos Hmain Hnb Hhw Hkp Hkh (F1 & F2 & F3 & F4 & F5 & F6 & F7 & F8) E Hr.
  assert (H0 : fqn (tb w) [] (w_cur w) w) by (split; [apply fq_start, W|constructor]).
  destruct (reproc_start_fq _ _ _ _ _ _ _ _ _ _ H0 Hpos Hnb Hkp F3 F4 F5 F6 F2 E)
    as [(_ & [Hq _] & A1 & A2 & A3 & A4 & A5 & A6 & A7 & A8)|(Hr' & _)]; [|lia].
  split; [exact (fq_end _ _ _ _ Hq (fun x X => X))|].
  split; [exact (reproc_start_frees _ _ _ _ _ _ _ _ _ W Hpos Hmain Hnb Hhw Hkp Hkh E)|].
  split; [|exact (post_reproc_start_blk _ _ _ _ _ _ _ _ E)].
  repeat split; congruence.
Qed.

(* ---- the pid a handle holds, at any point of any history ---- *)
Theorem history_pid ck ops p w p' w' :
  WorldSpec2.wf w -> 0 <= w_cur w -> NB w -> (forall q, kp (w_cur w) (ck q)) -> fresh_handle p ->
  run_hops ck p ops w = Ret p' w' ->
  (h_status p' = STATUS_NOT_STARTED -> h_handle p' = PROCESS_INVALID) /\
  (h_status p' <> STATUS_NOT_STARTED -> w_cur w < h_handle p' /\ 0 < h_handle p' /\ h_handle p' <> w_cur w').
Proof.
  intros W Hpos Hnb Hk Hf E.
  destruct (HN_run_hops _ _ _ _ _ _ _ _ (HN_fresh p w W Hpos Hnb Hf) Hk E) as [H1 _].
  pose proof H1 as ((Hq & _) & _ & _ & _ & Hns & Hpid). split.
  - intros X. apply Hns, X.
  - intros X. specialize (Hpid X). destruct Hq as (_ & C & _). rewrite C. lia.
Qed.
