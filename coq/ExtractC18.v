(* ExtractC18.v — extraction of the C18 model (WinArgs.v) for the tie harness/ties/C18.sh.
   ExtrOcamlBasic only: bool/option/list/prod map to OCaml's; Z, positive, nat stay the
   extracted inductives (converted at the boundary in harness/win/c18_model.ml).
   The file is written to coqc's current directory (the tie runs it in _build/c18/model). *)
From Verif Require Import WinArgs.
Require Import ExtrOcamlBasic.
Extraction Language OCaml.
Extraction "c18_extracted.ml"
  argument_should_escape argument_escaped_size argument_escape
  argv_joined_size argv_join_buf argv_join
  win_split win_split_gen win_split_old_gen program_okb
  env_setup env_block.
