(* ProofsPure.v — lemmas about the pure decision logic (status decoding, expiry arithmetic). *)
From Verif Require Import LibPure.
From Coq Require Import ZArith Lia List Bool.
Import ListNotations.
Local Open Scope Z_scope.

(* ---------- parse_status (process.posix.c) ---------- *)
(* The Linux wait status: exit code c -> c*256; death by signal s (core flag k) -> s + 128*k. *)

Lemma land_127_mul256 c : Z.land (c * 256) 127 = 0.
Proof.
  replace (c * 256) with (Z.shiftl c 8) by (rewrite Z.shiftl_mul_pow2 by lia; reflexivity).
  apply Z.bits_inj'. intros n Hn. rewrite Z.land_spec, Z.bits_0.
  destruct (Z.ltb_spec n 8).
  - rewrite Z.shiftl_spec_low by lia. reflexivity.
  - replace 127 with (Z.ones 7) by reflexivity. rewrite Z.ones_spec_high by lia. apply andb_false_r.
Qed.

Lemma parse_status_exit c : 0 <= c < 256 -> parse_status (c * 256) = c.
Proof.
  intros Hc. unfold parse_status. rewrite land_127_mul256. cbn [Z.eqb].
  replace (c * 256) with (Z.shiftl c 8) by (rewrite Z.shiftl_mul_pow2 by lia; reflexivity).
  rewrite Z.shiftr_shiftl_l by lia. replace (8 - 8) with 0 by lia. rewrite Z.shiftl_0_r.
  replace 255 with (Z.ones 8) by reflexivity. rewrite Z.land_ones by lia.
  apply Z.mod_small. change (2 ^ 8) with 256. lia.
Qed.

(* finite sweep for the signal half, lifted *)
Definition sig_ok (s : Z) : bool :=
  (parse_status s =? 128 + s) && (parse_status (s + 128) =? 128 + s).
Lemma sig_sweep : forallb sig_ok (map Z.of_nat (seq 1 127)) = true.
Proof. vm_compute. reflexivity. Qed.

Lemma parse_status_signal s core : 1 <= s <= 127 -> core = 0 \/ core = 1 ->
  parse_status (s + 128 * core) = 128 + s.
Proof.
  intros Hs Hc.
  assert (Hin : In s (map Z.of_nat (seq 1 127))).
  { apply in_map_iff. exists (Z.to_nat s). split; [lia|]. apply in_seq. lia. }
  pose proof (proj1 (forallb_forall _ _) sig_sweep s Hin) as H.
  unfold sig_ok in H. apply andb_true_iff in H. destruct H as [H0 H1].
  apply Z.eqb_eq in H0. apply Z.eqb_eq in H1.
  destruct Hc as [-> | ->]; [replace (s + 128 * 0) with s by lia | replace (s + 128 * 1) with (s + 128) by lia]; assumption.
Qed.

(* a status is never negative and never collides with the life-cycle markers *)
Lemma parse_status_range st : 0 <= st -> 0 <= parse_status st <= 255.
Proof.
  intros H. unfold parse_status.
  assert (E127 : Z.land st 127 = st mod 128).
  { change 127 with (Z.ones 7). rewrite Z.land_ones by lia. reflexivity. }
  assert (E255 : Z.land (Z.shiftr st 8) 255 = (Z.shiftr st 8) mod 256).
  { change 255 with (Z.ones 8). rewrite Z.land_ones by lia. reflexivity. }
  rewrite E127, E255.
  pose proof (Z.mod_pos_bound st 128). pose proof (Z.mod_pos_bound (Z.shiftr st 8) 256).
  destruct (st mod 128 =? 0); lia.
Qed.

(* ---------- expiry (reproc.c:85-109) ---------- *)
(* t: timeout (INFINITE = -1 or >= 0), d: absolute deadline (INFINITE = -1 = none), n: now *)
Lemma expiry_infinite_iff t d n : 0 <= n -> (t = REPROC_INFINITE \/ 0 <= t) -> (d = REPROC_INFINITE \/ 0 <= d) ->
  (expiry_pure t d n = REPROC_INFINITE <-> t = REPROC_INFINITE /\ d = REPROC_INFINITE).
Proof.
  unfold expiry_pure, REPROC_INFINITE, REPROC_DEADLINE. intros Hn Ht Hd.
  destruct (Z.eqb_spec t (-1)); destruct (Z.eqb_spec d (-1)); cbn [andb]; try lia.
  - destruct (Z.leb_spec d n); [lia|]. lia.
  - destruct (Z.leb_spec d n); [lia|]. destruct (Z.ltb_spec t (d - n)); lia.
Qed.

Lemma expiry_deadline_iff t d n : (t = REPROC_INFINITE \/ 0 <= t) ->
  (expiry_pure t d n = REPROC_DEADLINE <-> d <> REPROC_INFINITE /\ d <= n).
Proof.
  unfold expiry_pure, REPROC_INFINITE, REPROC_DEADLINE. intros Ht.
  destruct (Z.eqb_spec t (-1)); destruct (Z.eqb_spec d (-1)); cbn [andb]; try lia.
  - destruct (Z.leb_spec d n); lia.
  - destruct (Z.leb_spec d n); [lia|]. destruct (Z.ltb_spec t (d - n)); lia.
Qed.

(* otherwise: the minimum of the finite ones among the timeout and the time left *)
Lemma expiry_min t d n : (t = REPROC_INFINITE \/ 0 <= t) -> d <> REPROC_INFINITE -> n < d ->
  expiry_pure t d n = if t =? REPROC_INFINITE then d - n else Z.min t (d - n).
Proof.
  unfold expiry_pure, REPROC_INFINITE, REPROC_DEADLINE. intros Ht Hd Hn.
  destruct (Z.eqb_spec t (-1)); destruct (Z.eqb_spec d (-1)); cbn [andb]; try lia.
  - destruct (Z.leb_spec d n); lia.
  - destruct (Z.leb_spec d n); [lia|]. destruct (Z.ltb_spec t (d - n)); lia.
Qed.

Lemma expiry_no_deadline t n : expiry_pure t REPROC_INFINITE n = t.
Proof.
  unfold expiry_pure, REPROC_INFINITE. destruct (Z.eqb_spec t (-1)); cbn; [congruence|reflexivity].
Qed.

(* never longer than the timeout, never longer than the time left *)
Lemma expiry_bound t d n r : 0 <= t -> expiry_pure t d n = r -> r = REPROC_DEADLINE \/ (0 <= r <= t /\ (d <> REPROC_INFINITE -> r <= d - n)).
Proof.
  unfold expiry_pure, REPROC_INFINITE, REPROC_DEADLINE. intros Ht <-.
  destruct (Z.eqb_spec t (-1)); [lia|]. destruct (Z.eqb_spec d (-1)); cbn [andb].
  - right. lia.
  - destruct (Z.leb_spec d n); [left; reflexivity|]. right. destruct (Z.ltb_spec t (d - n)); lia.
Qed.
