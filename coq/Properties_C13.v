(* Properties_C13.v — property C13 (option validation), theorems only.
   Model: LibPure.parse_options (transcription of /repo/reproc/src/options.c WITH the D13
   fix of _build/c13/fix_D13.patch).  Specification: OptSpec.doc_ok / doc_effective
   (transcription of the comments of reproc.h).  Proofs: OptProofs.v, OptProofsStart.v.
   Each theorem is followed by Print Assumptions and by an Example showing it is not vacuous. *)
From Verif Require Import Base World Sys LibPure OptSpec OptProofs Lib OptProofsStart RunOpts.
From Coq Require Import Lia.
Local Open Scope Z_scope.

(* some concrete options used by the examples *)
Definition ex_stdout_on_in : options :=
  with_streams (only_type REPROC_REDIRECT_STDOUT) redirect_zero redirect_zero options_zero.
Definition ex_stdout_on_err : options :=
  with_streams redirect_zero redirect_zero (only_type REPROC_REDIRECT_STDOUT) options_zero.
Definition ex_handle_err_discard : options :=   (* discard shorthand, stderr to fd 7, deadline 0, stop all noop *)
  {| o_wd := None; o_env_behavior := 0; o_env_extra := None;
     o_in := redirect_zero; o_out := redirect_zero;
     o_err := {| rd_type := 0; rd_handle := 7; rd_file := 0; rd_path := None |};
     o_parent := false; o_discard := true; o_file := 0; o_path := None;
     o_stop := o_stop options_zero; o_deadline := 0;
     o_input_data := false; o_input_size := 0; o_fork := false; o_nonblocking := true |}.

(** ** 1. Rejection: exactly the documented conflicts *)

Theorem C13_reject_iff : forall o argv,
  types_in_range o -> (parse_options o argv = None <-> doc_ok o argv = false).
Proof. exact reject_iff_in_range. Qed.
Print Assumptions C13_reject_iff.

(* The same without the range hypothesis: outside 0..7 the quoted clauses, read literally,
   still coincide with the code (OptSpec [S4]). *)
Theorem C13_reject_iff_all_values : forall o argv,
  parse_options o argv = None <-> doc_ok o argv = false.
Proof. exact parse_options_reject_iff. Qed.
Print Assumptions C13_reject_iff_all_values.

(* both sides occur, within the range hypothesis *)
Example C13_reject_iff_ex_rejected :
  types_in_range ex_stdout_on_in /\ parse_options ex_stdout_on_in ArgvOk = None /\
  doc_violations ex_stdout_on_in ArgvOk = [(Stdout_type, IN)].
Proof. split; [|split]; [|reflexivity|reflexivity]. cbv -[Z.le]; lia. Qed.
Example C13_reject_iff_ex_accepted :
  types_in_range ex_stdout_on_err /\ parse_options ex_stdout_on_err ArgvOk <> None /\
  doc_ok ex_stdout_on_err ArgvOk = true.
Proof. split; [|split]; [|discriminate|reflexivity]. cbv -[Z.le]; lia. Qed.

(* one call of parse_redirect: rejects iff one of the clauses bearing on that stream fails *)
Theorem C13_reject_stream_iff : forall r s parent discard file path,
  parse_redirect r s parent discard file path = None <-> stream_ok_at r s parent discard file path = false.
Proof. exact parse_redirect_none_iff. Qed.
Print Assumptions C13_reject_stream_iff.
Example C13_reject_stream_iff_ex :
  parse_redirect (only_type REPROC_REDIRECT_HANDLE) OUT false false 0 None = None /\
  parse_redirect redirect_zero OUT false true 0 None <> None.
Proof. split; [reflexivity|discriminate]. Qed.

(** ** 2. Acceptance: the documented effective redirects, defaults, nothing else touched *)

Theorem C13_effective : forall o argv o',
  parse_options o argv = Some o' ->
  (forall s, s = IN \/ s = OUT \/ s = ERR -> rd_type (stream_of o' s) = doc_effective o s) /\
  (o_deadline o = 0 -> o_deadline o' = REPROC_INFINITE) /\
  (o_deadline o <> 0 -> o_deadline o' = o_deadline o) /\
  (stop_all_noop (o_stop o) = true ->
     st_first (o_stop o') = {| sa_action := REPROC_STOP_WAIT; sa_timeout := REPROC_DEADLINE |} /\
     st_second (o_stop o') = {| sa_action := REPROC_STOP_TERMINATE; sa_timeout := REPROC_INFINITE |} /\
     st_third (o_stop o') = st_third (o_stop o)) /\
  (stop_all_noop (o_stop o) = false -> o_stop o' = o_stop o) /\
  unchanged_but_resolved o o'.
Proof. exact effective. Qed.
Print Assumptions C13_effective.

(* the same as one equation *)
Theorem C13_resolved : forall o argv o',
  parse_options o argv = Some o' -> doc_ok o argv = true /\ o' = doc_resolved o.
Proof. exact parse_options_accept. Qed.
Print Assumptions C13_resolved.

Example C13_effective_ex :
  exists o', parse_options ex_handle_err_discard ArgvOk = Some o' /\
    rd_type (o_in o') = REPROC_REDIRECT_DISCARD /\ rd_type (o_out o') = REPROC_REDIRECT_DISCARD /\
    rd_type (o_err o') = REPROC_REDIRECT_HANDLE /\ rd_handle (o_err o') = 7 /\
    o_deadline o' = REPROC_INFINITE /\ sa_action (st_first (o_stop o')) = REPROC_STOP_WAIT /\
    o_nonblocking o' = true.
Proof. eexists. split; [vm_compute; reflexivity|]. repeat split. Qed.

(** ** 3. Validation is a function of the options' shape alone *)

Theorem C13_validation_pure : forall o1 a1 o2 a2,
  shape o1 a1 = shape o2 a2 -> (parse_options o1 a1 = None <-> parse_options o2 a2 = None).
Proof. exact validation_pure. Qed.
Print Assumptions C13_validation_pure.

(* different handle value, working directory, deadline, nonblocking: same shape, same verdict *)
Example C13_validation_pure_ex :
  let o2 := {| o_wd := Some [47]; o_env_behavior := 1; o_env_extra := Some [];
     o_in := redirect_zero; o_out := redirect_zero;
     o_err := {| rd_type := 0; rd_handle := -3; rd_file := 0; rd_path := None |};
     o_parent := false; o_discard := true; o_file := 0; o_path := None;
     o_stop := o_stop options_zero; o_deadline := 5;
     o_input_data := false; o_input_size := -4; o_fork := false; o_nonblocking := false |} in
  shape ex_handle_err_discard ArgvOk = shape o2 ArgvOk /\ o2 <> ex_handle_err_discard.
Proof. split; [reflexivity|discriminate]. Qed.

(** ** 4. Types outside the enumeration *)

(* "out of range and reached -> rejected" is FALSE for the code: a bare out-of-range type
   passes validation unchanged ... *)
Theorem C13_out_of_range_refuted :
  exists o argv o', ~ type_in_range (rd_type (o_out o)) /\ parse_options o argv = Some o' /\
                    rd_type (o_out o') = rd_type (o_out o).
Proof. exact out_of_range_refuted. Qed.
Print Assumptions C13_out_of_range_refuted.

(* ... what does hold: it is rejected when the stream also has a handle, file or path, or
   (stdout, stderr) meets a file/path shorthand; ... *)
Theorem C13_out_of_range_partial : forall o argv,
  (exists s, (s = IN \/ s = OUT \/ s = ERR) /\ ~ type_in_range (rd_type (stream_of o s)) /\
     (handle_set (stream_of o s) || file_set (stream_of o s) || path_set (stream_of o s)
      || (negb (s =? IN) && (sh_file_set o || sh_path_set o))) = true) ->
  parse_options o argv = None.
Proof. exact out_of_range_partial. Qed.
Print Assumptions C13_out_of_range_partial.
Example C13_out_of_range_partial_ex :
  let o := with_streams redirect_zero {| rd_type := -1; rd_handle := 3; rd_file := 0; rd_path := None |}
                        redirect_zero options_zero in
  ~ type_in_range (rd_type (stream_of o OUT)) /\ handle_set (stream_of o OUT) = true /\
  parse_options o ArgvOk = None.
Proof. split; [|split]; [|reflexivity|reflexivity]. cbv -[Z.le]; lia. Qed.

(* ... and precisely, per call and for whole options: *)
Theorem C13_out_of_range_redirect : forall r s parent discard file path,
  ~ type_in_range (rd_type r) ->
  parse_redirect r s parent discard file path =
  if handle_set r || file_set r || path_set r || negb (file =? 0) || isSome path then None else Some r.
Proof. exact out_of_range_redirect. Qed.
Print Assumptions C13_out_of_range_redirect.
Example C13_out_of_range_redirect_ex :
  parse_redirect (only_type 1000) IN true true 0 None = Some (only_type 1000).
Proof. reflexivity. Qed.

Theorem C13_out_of_range_passes : forall o argv,
  doc_ok o argv = true ->
  forall s, s = IN \/ s = OUT \/ s = ERR -> ~ type_in_range (rd_type (stream_of o s)) ->
  exists o', parse_options o argv = Some o' /\ rd_type (stream_of o' s) = rd_type (stream_of o s).
Proof. exact out_of_range_passes. Qed.
Print Assumptions C13_out_of_range_passes.
Example C13_out_of_range_passes_ex :
  let o := with_streams (only_type 8) redirect_zero redirect_zero options_zero in
  doc_ok o ArgvOk = true /\ ~ type_in_range (rd_type (stream_of o IN)).
Proof. split; [reflexivity|]. cbv -[Z.le]; lia. Qed.

(* A bare out-of-range type that passed validation is answered REPROC_EINVAL by redirect_init
   (no case of its switch matches), with no world operation for that stream. *)
Theorem C13_out_of_range_start : forall parent child stream rd nb out,
  ~ type_in_range (rd_type rd) ->
  redirect_init parent child stream rd nb out = ret (REPROC_EINVAL, parent, child, rd).
Proof. exact redirect_init_out_of_range. Qed.
Print Assumptions C13_out_of_range_start.
Example C13_out_of_range_start_ex : ~ type_in_range (rd_type (only_type 8)).
Proof. cbv -[Z.le]; lia. Qed.

(** ** 4. The same options arriving through reproc_run / reproc_run_ex (run.c) *)

(* reproc_run only ever ADDS the parent shorthand (when discard, file and path are all unset); it
   never clears or overrides a setting of the caller: whatever parse_options rejects in the caller's
   options it also rejects in the options run hands to start. *)
Theorem C13_run_keeps_conflicts : forall o argv,
  parse_options o argv = None -> parse_options (run_options o) argv = None.
Proof. exact run_options_keeps_conflicts. Qed.
Print Assumptions C13_run_keeps_conflicts.

(* ... and the whole call is then: allocate the handle, release it, answer EINVAL -- no pipe, no
   file, no process, whatever the world (in fork mode, which run refuses, not even that). *)
Theorem C13_run_rejects_conflicts : forall fuel argv o src w,
  parse_options o (argv_form_of argv) = None ->
  reproc_run fuel argv o src w =
  (if o_fork o then ret REPROC_EINVAL else
   let* b := sys_malloc SIZEOF_REPROC_T in
   if b =? 0 then ret REPROC_ENOMEM else sys_free b ;> ret REPROC_EINVAL) w.
Proof. exact run_conflict_is_alloc_free. Qed.
Print Assumptions C13_run_rejects_conflicts.

Theorem C13_run_ex_rejects_conflicts : forall fuel argv o src s w,
  parse_options o (argv_form_of argv) = None ->
  reproc_run_ex fuel argv o src s w =
  (if o_fork o then ret (REPROC_EINVAL, s) else
   let* b := sys_malloc SIZEOF_REPROC_T in
   if b =? 0 then ret (REPROC_ENOMEM, s) else sys_free b ;> ret (REPROC_EINVAL, s)) w.
Proof. exact run_ex_conflict_is_alloc_free. Qed.
Print Assumptions C13_run_ex_rejects_conflicts.

(* not vacuous: parent + discard with every stream left alone is a conflict, run leaves both
   shorthands as they are; and on the all-default options run does add the parent shorthand *)
Definition ex_parent_discard : options :=
  {| o_wd := None; o_env_behavior := 0; o_env_extra := None;
     o_in := redirect_zero; o_out := redirect_zero; o_err := redirect_zero;
     o_parent := true; o_discard := true; o_file := 0; o_path := None;
     o_stop := o_stop options_zero; o_deadline := 0;
     o_input_data := false; o_input_size := 0; o_fork := false; o_nonblocking := false |}.
Example C13_run_ex_conflict :
  parse_options ex_parent_discard (argv_form_of (Some [[99]])) = None /\
  run_options ex_parent_discard = ex_parent_discard /\
  o_parent options_zero = false /\ o_parent (run_options options_zero) = true.
Proof. repeat split; reflexivity. Qed.
