(* Extract.v — extraction of the world, the library model and the run machinery.
   ExtrOcamlBasic only: bool/option/unit/list/prod/sumbool/sumor map to OCaml's;
   Z, positive, N, nat, gmap stay the extracted inductives. *)
From Verif Require Import Build.
Require Import ExtrOcamlBasic.
Extraction Language OCaml.
Cd "../_build/extract".
Extraction "model.ml"
  run_model exec_op exec_sop run_ops build_world std_files fds_list procs_list heap_list disp_list pipes_list files_list
  sys_pipe sys_dupfd sys_getfd sys_setfd sys_getfl sys_setfl sys_close sys_dup2 sys_read sys_write sys_poll
  sys_open sys_chdir sys_getcwd sys_fileno sys_getrlimit fork_pre fork_post sys_fork sys_execvp sys__exit
  sys_child_done sys_waitpid sys_waitpid_nohang sys_kill sys_sigfillset sys_sigemptyset sys_sigaction sys_sigmask sys_clock
  sys_malloc sys_calloc sys_strdup sys_free sys_realloc get_environ set_environ get_errno
  advance_to user_close user_cloexec take_runs w_add_note opres_code note_child_op curp get_proc
  parse_options parse_redirect parse_stop_actions expiry_pure parse_status path_is_relative
  slot_of rs_set rs_del rs_add_woff write_src input_src init_rstate fd_set_cloexec
  abs_path has_writer has_reader get_pipe run_len norm_mask null_stop.
