(* WinArgs.v — C18: model of the Windows command-line / environment-block builders of
   reproc/src/process.windows.c (AS FIXED by fix_D14.patch), and of the Windows argument
   splitting rules.  Definitions only; the proofs are in WinArgsProofs.v, the property
   theorems in Properties_C18.v.

   Conventions
   * a character is a code unit, a [Z] (a `char` of the UTF-8 command line, or a `wchar_t`
     of the UTF-16 one: the functions below only ever compare units against the five ASCII
     constants SP TAB NL VT DQ BS and NUL, which UTF-8 -> UTF-16 conversion maps to
     themselves and to which it maps nothing else);
   * a string is a [list Z] WITHOUT its terminating NUL; a buffer is a [list Z] of exactly
     the allocated number of units;
   * sizes computed by the C code in `size_t` arithmetic are [Z]; positions of stores and
     counts of stored units are [nat];
   * every C loop is modelled by a structural recursion that carries the loop's own
     variables: the inner `while (argument[i] == '\\') num_backslashes++` is the
     accumulator [n] of [size_acc]/[esc_acc];
   * every store into an allocated buffer goes through [write_at], which fails ([None])
     when any stored unit would fall outside the buffer: "nothing is written past the end"
     is then the statement that the buffer-level functions return [Some _].
   Not modelled: allocation failure (calloc returning NULL), `size_t`/`int` overflow of the
   sizes, and the contents of the UTF-8 decoder (see [utf16_from_utf8]). *)
From Coq Require Import ZArith List Bool Lia.
Import ListNotations.
Open Scope Z_scope.

(* ------------------------------------------------------------------------- *)
(** * Characters *)

Definition NUL : Z := 0.
Definition TAB : Z := 9.    (* '\t' *)
Definition NL  : Z := 10.   (* '\n' *)
Definition VT  : Z := 11.   (* '\v' *)
Definition SP  : Z := 32.   (* ' '  *)
Definition DQ  : Z := 34.   (* double quote *)
Definition BS  : Z := 92.   (* '\\' *)

Definition str := list Z.

(* What a C string / a `const char *const *` can hold: no embedded NUL. *)
Definition no_nul (s : str) : Prop := Forall (fun c => c <> NUL) s.
Definition no_nulb (s : str) : bool := forallb (fun c => negb (c =? NUL)) s.

(* ------------------------------------------------------------------------- *)
(** * Buffers and stores *)

(* `calloc(n, sizeof unit)` *)
Definition calloc (n : Z) : list Z := repeat NUL (Z.to_nat n).

(* Store the units [u] at positions [pos], [pos+1], ... of [buf].
   [None] = at least one of these stores is outside the buffer. *)
Definition write_at (buf : list Z) (pos : nat) (u : list Z) : option (list Z) :=
  if (pos + length u <=? length buf)%nat
  then Some (firstn pos buf ++ u ++ skipn (pos + length u) buf)
  else None.

(* The C string found at the start of a buffer: the units before the first NUL. *)
Fixpoint until_nul (s : list Z) : str :=
  match s with
  | [] => []
  | c :: r => if c =? NUL then [] else c :: until_nul r
  end.

(* ------------------------------------------------------------------------- *)
(** * argument_should_escape  (process.windows.c:34-47, with fix_D14.patch)

<<
  bool should_escape = argument[0] == '\0';          // fix_D14 (was: = false)
  for (size_t i = 0; i < strlen(argument); i++)
    should_escape = should_escape || argument[i] == ' ' || argument[i] == '\t' ||
                    argument[i] == '\n' || argument[i] == '\v' || argument[i] == DQ;
>> *)

Definition is_special (c : Z) : bool :=
  (c =? SP) || (c =? TAB) || (c =? NL) || (c =? VT) || (c =? DQ).

Definition is_empty (a : str) : bool := match a with [] => true | _ :: _ => false end.

Fixpoint should_escape_loop (acc : bool) (s : str) : bool :=
  match s with
  | [] => acc
  | c :: r => should_escape_loop (acc || is_special c) r
  end.

Definition argument_should_escape (a : str) : bool :=
  should_escape_loop (is_empty a) a.

(* The function as it is in the unpatched tree (defect D14): initial value `false`. *)
Definition argument_should_escape_D14 (a : str) : bool :=
  should_escape_loop false a.

(* ------------------------------------------------------------------------- *)
(** * argument_escaped_size  (:49-79)

   [size_acc n s]: the value added to `size` by the rest of the outer `for` loop when
   the inner `while` has already counted [n] backslashes and [s] is what remains of the
   argument from index `i` on. *)

Fixpoint size_acc (n : Z) (s : str) : Z :=
  match s with
  | [] => n * 2                                         (* i == argument_size *)
  | c :: r =>
      if c =? BS then size_acc (n + 1) r                (* inner while *)
      else if c =? DQ then (n * 2 + 2) + size_acc 0 r
      else (n + 1) + size_acc 0 r
  end.

Definition escaped_size_gen (se : bool) (a : str) : Z :=
  if se then 2 + size_acc 0 a                           (* size = 2: the double quotes *)
  else Z.of_nat (length a).                             (* strlen(argument) *)

Definition argument_escaped_size (a : str) : Z :=
  escaped_size_gen (argument_should_escape a) a.

(* ------------------------------------------------------------------------- *)
(** * argument_escape  (:81-122)

   [esc_acc n s]: the units stored through `dest` by the rest of the outer `for` loop,
   in store order (`memset(dest, '\\', k); dest += k` is [repeat BS k]).  All stores of
   argument_escape are consecutive from `dest`, so the list of stored units IS the
   memory written, and the returned `dest - begin` is its length. *)

Fixpoint esc_acc (n : nat) (s : str) : list Z :=
  match s with
  | [] => repeat BS (n * 2)
  | c :: r =>
      if c =? BS then esc_acc (S n) r
      else if c =? DQ then repeat BS (n * 2 + 1) ++ DQ :: esc_acc 0 r
      else repeat BS n ++ c :: esc_acc 0 r
  end.

(* The escaped text of one argument (what becomes part of the command line). *)
Definition escape_gen (se : bool) (a : str) : list Z :=
  if se then DQ :: esc_acc 0 a ++ [DQ] else a.

(* The units actually STORED: in the unescaped case `strcpy` also stores the NUL. *)
Definition escape_stored_gen (se : bool) (a : str) : list Z :=
  if se then escape_gen se a else a ++ [NUL].

(* The return value: `dest - begin`, resp. `argument_size`. *)
Definition escape_ret_gen (se : bool) (a : str) : nat :=
  if se then length (escape_gen se a) else length a.

Definition argument_escape (a : str) : list Z := escape_gen (argument_should_escape a) a.
Definition argument_escape_stored (a : str) : list Z :=
  escape_stored_gen (argument_should_escape a) a.
Definition argument_escape_ret (a : str) : nat :=
  escape_ret_gen (argument_should_escape a) a.

(* ------------------------------------------------------------------------- *)
(** * argv_join  (:124-158) *)

(* first loop: joined_size *)
Fixpoint joined_size_loop (se : str -> bool) (acc : Z) (argv : list str) : Z :=
  match argv with
  | [] => acc
  | a :: rest =>
      let acc1 := acc + escaped_size_gen (se a) a in
      match rest with
      | [] => joined_size_loop se acc1 rest
      | _ :: _ => joined_size_loop se (acc1 + 1) rest          (* the blank *)
      end
  end.

(* second loop: the stores; state = (buffer, current - joined) *)
Fixpoint argv_write (se : str -> bool) (buf : list Z) (cur : nat) (argv : list str)
  : option (list Z * nat) :=
  match argv with
  | [] => Some (buf, cur)
  | a :: rest =>
      match write_at buf cur (escape_stored_gen (se a) a) with
      | None => None
      | Some buf1 =>
          let cur1 := (cur + escape_ret_gen (se a) a)%nat in
          match rest with
          | [] => argv_write se buf1 cur1 rest
          | _ :: _ =>
              match write_at buf1 cur1 [SP] with
              | None => None
              | Some buf2 => argv_write se buf2 (S cur1) rest
              end
          end
      end
  end.

(* The whole function at buffer level: size passed to calloc, and the final contents
   of the allocation ([None]: a store fell outside it). *)
Definition argv_join_gen (se : str -> bool) (argv : list str) : Z * option (list Z) :=
  let size := joined_size_loop se 1 argv in                   (* 1: the terminator *)
  (size,
   match argv_write se (calloc size) 0 argv with
   | None => None
   | Some (buf, cur) => write_at buf cur [NUL]                (* *current = '\0' *)
   end).

Definition argv_joined_size (argv : list str) : Z :=
  fst (argv_join_gen argument_should_escape argv).
Definition argv_join_buf (argv : list str) : option (list Z) :=
  snd (argv_join_gen argument_should_escape argv).

(* The command line as a string: what the buffer-level function is proved to produce
   (WinArgsProofs.argv_join_buf_ok : argv_join_buf argv = Some (argv_join argv ++ [NUL])). *)
Fixpoint join_gen (se : str -> bool) (argv : list str) : str :=
  match argv with
  | [] => []
  | a :: rest =>
      escape_gen (se a) a ++
      match rest with
      | [] => []
      | _ :: _ => SP :: join_gen se rest
      end
  end.

Definition argv_join (argv : list str) : str := join_gen argument_should_escape argv.

(* The same for the unpatched tree (D14). *)
Definition argv_join_D14 (argv : list str) : str := join_gen argument_should_escape_D14 argv.
Definition argv_join_buf_D14 (argv : list str) : option (list Z) :=
  snd (argv_join_gen argument_should_escape_D14 argv).

(* ------------------------------------------------------------------------- *)
(** * The Windows splitting rules

   Transcription of `parse_cmdline` of the Microsoft C runtime (stdargv.c; the same rules
   are documented for CommandLineToArgvW), which is what a child started with this command
   line uses to rebuild its argv.  THIS IS AN ASSUMPTION ABOUT WINDOWS (trusted base):

   program name (argv[0]):   a double quote toggles "in quotes" and is dropped; every other
       unit is copied; the name ends at the first blank/tab outside quotes or at the end.
       Backslashes have no special meaning here.  (UCRT form.  The older form "if the
       name starts with a quote, take everything up to the next quote, else up to the
       first blank" is [prog_scan_old]/[win_split_old_gen]; the round trip is proved
       for it too, WinArgsProofs.roundtrip_old_gen.)
   other arguments:   blanks and tabs outside quotes separate arguments (newline and
       vertical tab are ordinary data);
       2n   backslashes + quote  ->  n backslashes, and the quote toggles "in quotes";
       2n+1 backslashes + quote  ->  n backslashes and a literal quote;
       n backslashes not followed by a quote -> n backslashes;
       inside quotes, [""] (a quote reached with an even backslash count, immediately
       followed by a quote) -> one literal quote; with the post-2008 rules the scanner STAYS
       in quotes ([dq_stays = true], the choice made in [win_split]); with the pre-2008
       rules it LEAVES quote mode ([dq_stays = false]).  The writer never produces that
       sequence, so the choice does not matter: the round trip is proved for both
       (WinArgsProofs.roundtrip_gen is quantified over [dq_stays]).
   The scanner stops at the first NUL ([until_nul]). *)

Definition is_ws (c : Z) : bool := (c =? SP) || (c =? TAB).

(* Program name.  [inq]: inside quotes; [cur]: units copied so far.
   Returns the name and the rest of the line (after the separating blank). *)
Fixpoint prog_scan (inq : bool) (cur : str) (s : str) : str * str :=
  match s with
  | [] => (cur, [])
  | c :: r =>
      if c =? DQ then prog_scan (negb inq) cur r
      else if negb inq && is_ws c then (cur, r)
      else prog_scan inq (cur ++ [c]) r
  end.

(* Older program-name rule (msvcrt before the UCRT): if the line starts with a quote the
   name is everything up to the next quote and scanning resumes right after that quote;
   otherwise the name is everything up to the first blank/tab. *)
Fixpoint scan_to (stop : Z -> bool) (cur : str) (s : str) : str * str :=
  match s with
  | [] => (cur, [])
  | c :: r => if stop c then (cur, r) else scan_to stop (cur ++ [c]) r
  end.

Definition prog_scan_old (s : str) : str * str :=
  match s with
  | c :: r => if c =? DQ then scan_to (fun d => d =? DQ) [] r else scan_to is_ws [] s
  | [] => ([], [])
  end.

(* Arguments after the program name.
   [inarg]: an argument is being scanned (otherwise we are skipping blanks);
   [inq]: inside quotes; [n]: backslashes counted and not yet copied (`numslash`);
   [cur]: the units copied to the current argument so far. *)
Fixpoint split_args (dq_stays : bool) (inarg inq : bool) (n : nat) (cur : str) (s : str)
  : list str :=
  match s with
  | [] => if inarg then [cur ++ repeat BS n] else []
  | c :: r =>
      if negb inarg && is_ws c then split_args dq_stays false false 0 [] r
      else if c =? BS then split_args dq_stays true inq (S n) cur r
      else if c =? DQ then
        if Nat.even n then
          match r with
          | d :: r' =>
              if inq && (d =? DQ)
              then (* "" inside quotes: literal quote *)
                split_args dq_stays true dq_stays 0 (cur ++ repeat BS (Nat.div2 n) ++ [DQ]) r'
              else split_args dq_stays true (negb inq) 0 (cur ++ repeat BS (Nat.div2 n)) r
          | [] => split_args dq_stays true (negb inq) 0 (cur ++ repeat BS (Nat.div2 n)) r
          end
        else split_args dq_stays true inq 0 (cur ++ repeat BS (Nat.div2 n) ++ [DQ]) r
      else if negb inq && is_ws c
        then (cur ++ repeat BS n) :: split_args dq_stays false false 0 [] r
      else split_args dq_stays true inq 0 (cur ++ repeat BS n ++ [c]) r
  end.

Definition win_split_gen (dq_stays : bool) (line : list Z) : list str :=
  let '(prog, rest) := prog_scan false [] (until_nul line) in
  prog :: split_args dq_stays false false 0 [] rest.

Definition win_split (line : list Z) : list str := win_split_gen true line.

(* The same with the older program-name rule. *)
Definition win_split_old_gen (dq_stays : bool) (line : list Z) : list str :=
  let '(prog, rest) := prog_scan_old (until_nul line) in
  prog :: split_args dq_stays false false 0 [] rest.

(* The condition on argv[0].  The program-name rule knows neither backslash-quote nor backslash-backslash, so the
   writer's escaping cannot be undone there: argv[0] must not contain a double quote
   (no Windows file name can), and if it has to be quoted (it contains a blank, tab,
   newline or vertical tab, or is empty) it must not END in a backslash (the writer
   doubles the trailing backslashes of a quoted argument).  If it contains none of
   these it is emitted raw and any backslashes are fine. *)
Definition program_okb (a : str) : bool :=
  forallb (fun c => negb (c =? DQ)) a &&
  (negb (argument_should_escape a) || negb (last a NUL =? BS)).

Definition program_ok (a : str) : Prop := program_okb a = true.

(* ------------------------------------------------------------------------- *)
(** * Environment block  (:160-192, :246-322)

   An environment block in memory: each entry followed by NUL, then one more NUL. *)

Definition env_block (entries : list str) : list Z :=
  concat (map (fun e => e ++ [NUL]) entries) ++ [NUL].

(* env_join_size *)
Fixpoint env_join_size_loop (acc : Z) (env : list str) : Z :=
  match env with
  | [] => acc
  | e :: rest => env_join_size_loop (acc + (Z.of_nat (length e) + 1)) rest
  end.

Definition env_join_size (env : list str) : Z := env_join_size_loop 1 env.

(* the copying loop shared by env_join (memcpy of strlen+1 units) and env_concat
   (wcscpy: the string and its NUL) *)
Fixpoint entries_write (buf : list Z) (cur : nat) (env : list str) : option (list Z * nat) :=
  match env with
  | [] => Some (buf, cur)
  | e :: rest =>
      match write_at buf cur (e ++ [NUL]) with
      | None => None
      | Some buf1 => entries_write buf1 (cur + (length e + 1))%nat rest
      end
  end.

Definition env_join (env : list str) : option (list Z) :=
  match entries_write (calloc (env_join_size env)) 0 env with
  | None => None
  | Some (buf, cur) => write_at buf cur [NUL]
  end.

(* utf16_from_utf8(string, size): `size` units are converted into a fresh buffer of exactly
   the number of units MultiByteToWideChar asks for.  The decoder itself is Windows; it is
   modelled as the identity on units, which is exact for 7-bit text and, for the
   purposes of this file, for all text (NUL <-> NUL, nothing else becomes NUL). *)
Definition utf16_from_utf8 (s : list Z) (size : Z) : list Z := firstn (Z.to_nat size) s.

(* NULSTR_FOREACH(i, l): the strings found in memory [l] (a buffer read from its start),
   up to the first EMPTY string.  [cur] = units of the current string so far.
   Running off the end of the memory ([] reached) is a wild read in C; the model then
   just stops - it never happens for blocks that end in NUL NUL or are a lone NUL. *)
Fixpoint nulstr_loop (cur : str) (l : list Z) : list str :=
  match l with
  | [] => []
  | c :: r =>
      if c =? NUL then
        match cur with
        | [] => []                               (* *(i) == L'\0' : stop *)
        | _ :: _ => cur :: nulstr_loop [] r
        end
      else nulstr_loop (cur ++ [c]) r
  end.

Definition nulstr (l : option (list Z)) : list str :=
  match l with
  | None => []                                   (* (i) == NULL *)
  | Some m => nulstr_loop [] m
  end.

(* env_concat(a, b): size passed to calloc and final contents of the allocation *)
Definition env_concat (a b : option (list Z)) : Z * option (list Z) :=
  let size := env_join_size_loop (env_join_size_loop 1 (nulstr a)) (nulstr b) in
  (size,
   match entries_write (calloc size) 0 (nulstr a) with
   | None => None
   | Some (buf1, c1) =>
       match entries_write buf1 c1 (nulstr b) with
       | None => None
       | Some (buf2, c2) => write_at buf2 c2 [NUL]            (* *c = L'\0' *)
       end
   end).

(* env_setup(behavior, extra).
   [extend]: behavior == REPROC_ENV_EXTEND (otherwise REPROC_ENV_EMPTY);
   [extra]: [None] when `extra == NULL`;
   [parent]: the memory returned by GetEnvironmentStringsW().
   Result: size of the block's allocation, and its contents. *)
Definition env_setup (extend : bool) (extra : option (list str)) (parent : list Z)
  : Z * option (list Z) :=
  let env_parent := if extend then Some parent else None in
  match extra with
  | None => env_concat env_parent None
  | Some ex =>
      match env_join ex with
      | None => (0, None)
      | Some env_extra =>
          env_concat env_parent (Some (utf16_from_utf8 env_extra (env_join_size ex)))
      end
  end.

(* an entry a caller can pass / a parent block can contain *)
Definition entry_ok (e : str) : Prop := e <> [] /\ no_nul e.
