(* Base.v — common imports, the outcome monad, small helpers.
   Model files contain definitions only (no proofs). *)
From stdpp Require Export gmap list numbers.
From Coq Require Export ZArith List Bool.
Export ListNotations.
Local Open Scope Z_scope.

(* Strings are lists of byte values (0..255) as Z; no Ascii/String so that
   extraction with ExtrOcamlBasic stays small and the FFI conversion is one
   total function. *)
Notation str := (list Z).

(* Outcome of running library code against the world.
   Ret  : returned normally
   Hang : a blocking call can never return (first-class, replayable outcome)
   Stop : the current process stopped running library code (exec succeeded or _exit)
   Crash: the model itself gave up (fuel) or the code did something the world
          cannot express (why-code) — never a normal-looking value. *)
Inductive outcome (W A : Type) :=
| Ret (a : A) (w : W)
| Hang (w : W)
| Stop (w : W)
| Crash (why : Z) (w : W).
Arguments Ret {W A}. Arguments Hang {W A}. Arguments Stop {W A}. Arguments Crash {W A}.

Definition crash_fuel : Z := 1.
Definition crash_unmodelled : Z := 2.
Definition crash_parent_stop : Z := 3.

Section Monad.
  Context {W : Type}.
  Definition M (A : Type) := W -> outcome W A.
  Definition ret {A} (a : A) : M A := fun w => Ret a w.
  Definition bind {A B} (m : M A) (f : A -> M B) : M B :=
    fun w => match m w with
             | Ret a w' => f a w'
             | Hang w' => Hang w'
             | Stop w' => Stop w'
             | Crash y w' => Crash y w'
             end.
  Definition get : M W := fun w => Ret w w.
  Definition put (w' : W) : M unit := fun _ => Ret tt w'.
  Definition modify (f : W -> W) : M unit := fun w => Ret tt (f w).
  Definition gets {A} (f : W -> A) : M A := fun w => Ret (f w) w.
End Monad.

Notation "'let*' x ':=' m 'in' k" := (bind m (fun x => k))
  (at level 200, x binder, m at level 100, k at level 200, right associativity).
Notation "'let*' ' p ':=' m 'in' k" := (bind m (fun x => match x with p => k end))
  (at level 200, p pattern, m at level 100, k at level 200, right associativity).
Notation "m ;> k" := (bind m (fun _ => k))
  (at level 100, k at level 200, right associativity).

Fixpoint mapM_ {W A} (f : A -> @M W unit) (l : list A) : @M W unit :=
  match l with
  | [] => ret tt
  | x :: r => f x ;> mapM_ f r
  end.

Definition zeqb (a b : Z) : bool := Z.eqb a b.
Fixpoint str_eqb (a b : str) : bool :=
  match a, b with
  | [], [] => true
  | x :: a', y :: b' => Z.eqb x y && str_eqb a' b'
  | _, _ => false
  end.

Definition zlen {A} (l : list A) : Z := Z.of_nat (length l).

Fixpoint assoc_str {A} (k : str) (l : list (str * A)) : option A :=
  match l with
  | [] => None
  | (k', v) :: r => if str_eqb k k' then Some v else assoc_str k r
  end.

Fixpoint assocZ {A} (k : Z) (l : list (Z * A)) : option A :=
  match l with
  | [] => None
  | (k', v) :: r => if Z.eqb k k' then Some v else assocZ k r
  end.
Fixpoint assocZ_set {A} (k : Z) (v : A) (l : list (Z * A)) : list (Z * A) :=
  match l with
  | [] => [(k, v)]
  | (k', v') :: r => if Z.eqb k k' then (k, v) :: r else (k', v') :: assocZ_set k v r
  end.

Definition memZ (x : Z) (l : list Z) : bool := existsb (Z.eqb x) l.

(* bit test on non-negative Z flags *)
Definition has_bit (x m : Z) : bool := negb (Z.eqb (Z.land x m) 0).
