(* OptSpec.v — C13: what the DOCUMENTATION says about option validation.
   Definitions only.  Every clause is transcribed from a comment in
   /repo/reproc/include/reproc/reproc.h (quoted, with its line) or from the fixed
   text of property C13 -- never from options.c.  Decisions taken where the
   comments are silent or ambiguous are marked [S1]..[S9] and listed in C13_NOTES.md.

   The option records themselves ([redirect], [options], [argv_form]) are the ones
   of LibPure.v; nothing else of LibPure is used here. *)
From Verif Require Import LibPure.
Local Open Scope Z_scope.

Notation "a ==> b" := (negb a || b) (at level 55, right associativity, only parsing).

Notation IN := REPROC_STREAM_IN.  Notation OUT := REPROC_STREAM_OUT.  Notation ERR := REPROC_STREAM_ERR.

(** * Vocabulary: "set" and "unset" *)
(* [S1] The comments say "set"/"unset" of struct members without defining it.  A member is
   unset when it still has the value zero-initialisation gives it: type =
   REPROC_REDIRECT_DEFAULT (:56 "Use the default redirect behavior"), a NULL `file`/`path`.
   [S2] For `handle` (an int fd on POSIX, :111) that value is 0, so handle 0 counts as
   unset: fd 0 cannot be named through `handle`. *)
Definition type_set   (r : redirect) : bool := negb (rd_type r =? REPROC_REDIRECT_DEFAULT).
Definition handle_set (r : redirect) : bool := negb (rd_handle r =? 0).
Definition file_set   (r : redirect) : bool := negb (rd_file r =? 0).
Definition path_set   (r : redirect) : bool := isSome (rd_path r).
(* [S3] :230 "`out`, `err` ... must be unset", :273 "If `redirect.in` is set": a whole
   reproc_redirect is set when any of its members is. *)
Definition redirect_set (r : redirect) : bool :=
  type_set r || handle_set r || file_set r || path_set r.
Definition type_unset_or (r : redirect) (t : Z) : bool := negb (type_set r) || (rd_type r =? t).

Definition stream_of (o : options) (s : Z) : redirect :=
  if s =? IN then o_in o else if s =? OUT then o_out o else o_err o.
Definition sh_file_set (o : options) : bool := negb (o_file o =? 0).
Definition sh_path_set (o : options) : bool := isSome (o_path o).

(** * Clauses about one stream (reproc.h:114-158, :55-73) *)

(* :127-128 "If `handle` is set, `type` must be unset or set to `REPROC_REDIRECT_HANDLE`
            and `file`, `path` must be unset."
   :144-145 "If `file` is set, `type` must be unset or set to `REPROC_REDIRECT_FILE` and
            `handle`, `path` must be unset."
   :154-155 "If `path` is set, `type` must be unset or set to `REPROC_REDIRECT_PATH` and
            `handle`, `file` must be unset."
   C13: "a stream is given two different targets".                      rule two-targets *)
Definition one_target (r : redirect) : bool :=
  (handle_set r ==> type_unset_or r REPROC_REDIRECT_HANDLE && negb (file_set r) && negb (path_set r))
  && (file_set r ==> type_unset_or r REPROC_REDIRECT_FILE && negb (handle_set r) && negb (path_set r))
  && (path_set r ==> type_unset_or r REPROC_REDIRECT_PATH && negb (handle_set r) && negb (file_set r)).

(* :67 "Redirect to a handle", :69 "Redirect to a `FILE *`", :71 "Redirect to a specific path";
   C13: "a redirect type lacks the handle, file or path it needs".
                                          rules handle-missing, file-missing, path-missing *)
Definition has_handle (r : redirect) : bool := (rd_type r =? REPROC_REDIRECT_HANDLE) ==> handle_set r.
Definition has_file   (r : redirect) : bool := (rd_type r =? REPROC_REDIRECT_FILE) ==> file_set r.
Definition has_path   (r : redirect) : bool := (rd_type r =? REPROC_REDIRECT_PATH) ==> path_set r.

(* :65 "Redirect to child process stdout. Only valid for stderr."          rule stdout-type *)
Definition stdout_only_err (r : redirect) (s : Z) : bool :=
  (rd_type r =? REPROC_REDIRECT_STDOUT) ==> (s =? ERR).

(** * The effective redirect of a stream *)

(* What the stream's own members designate; None when the stream is left default.
   :127/:144/:154 allow `type` unset together with a set handle/file/path, which then
   means HANDLE/FILE/PATH.  [S4] A type outside the enumeration designates itself: the
   comments never mention such values (see [types_in_range]). *)
Definition explicit (r : redirect) : option Z :=
  if handle_set r then Some REPROC_REDIRECT_HANDLE
  else if file_set r then Some REPROC_REDIRECT_FILE
  else if path_set r then Some REPROC_REDIRECT_PATH
  else if type_set r then Some (rd_type r)
  else None.

Definition doc_effective (o : options) (s : Z) : Z :=
  match explicit (stream_of o s) with
  | Some t => t
  | None =>
    (* :228 "Shorthand for redirecting stdout and stderr to the same file." *)
    if negb (s =? IN) && sh_file_set o then REPROC_REDIRECT_FILE
    (* :235 "Shorthand for redirecting stdout and stderr to the same path." *)
    else if negb (s =? IN) && sh_path_set o then REPROC_REDIRECT_PATH
    (* :214-215 "Use `REPROC_REDIRECT_PARENT` instead of `REPROC_REDIRECT_PIPE` when `type`
       is unset."  [S5] applies to every stream left default, stderr included. *)
    else if o_parent o then REPROC_REDIRECT_PARENT
    (* :221-222 "Use `REPROC_REDIRECT_DISCARD` instead of `REPROC_REDIRECT_PIPE` when `type`
       is unset."  [S5] *)
    else if o_discard o then REPROC_REDIRECT_DISCARD
    (* :207-208 "When not set, `in` and `out` default to `REPROC_REDIRECT_PIPE` while `err`
       defaults to `REPROC_REDIRECT_PARENT`." *)
    else if s =? ERR then REPROC_REDIRECT_PARENT else REPROC_REDIRECT_PIPE
  end.

(* The `FILE *` / path a stream ends up with (the shorthand's when it applied). *)
Definition doc_effective_file (o : options) (s : Z) : Z :=
  if negb (s =? IN) && sh_file_set o then o_file o else rd_file (stream_of o s).
Definition doc_effective_path (o : options) (s : Z) : option str :=
  if negb (s =? IN) && sh_path_set o then o_path o else rd_path (stream_of o s).

(** * Clauses about the shorthands (reproc.h:213-240) *)

(* :230-231 (file) "If this option is set, `out`, `err`, `parent`, `discard` and `path` must
                   be unset."
   :237-238 (path) "If this option is set, `out`, `err`, `parent`, `discard` and `file` must
                   be unset."
   C13: "a shorthand conflicts with explicit settings".             rule shorthand-explicit *)
Definition shorthand_vs_explicit (o : options) : bool :=
  (sh_file_set o || sh_path_set o) ==> negb (redirect_set (o_out o)) && negb (redirect_set (o_err o)).

(* :217 (parent)  "When this option is set, `discard`, `file` and `path` must be unset."
   :224 (discard) "When this option is set, `parent`, `file` and `path` must be unset."
   and the `parent`, `discard`, `path`/`file` parts of :230-231, :237-238.
   C13: "... or with another shorthand it would compete with".       rule shorthand-conflict
   [S6] `parent` together with `discard` is a conflict exactly when they compete, i.e. when
   some stream is left default and would be claimed by both (the reading fixed by the
   property text; the literal :217/:224 would forbid the pair unconditionally). *)
Definition left_default (o : options) (s : Z) : bool := negb (redirect_set (stream_of o s)).
Definition parent_discard_compete (o : options) : bool :=
  o_parent o && o_discard o && (left_default o IN || left_default o OUT || left_default o ERR).
Definition shorthands_compatible (o : options) : bool :=
  (sh_file_set o ==> negb (o_parent o) && negb (o_discard o) && negb (sh_path_set o))
  && (sh_path_set o ==> negb (o_parent o) && negb (o_discard o) && negb (sh_file_set o))
  && negb (parent_discard_compete o).

(** * Start-up input (reproc.h:265-278) *)

(* :273 "If `redirect.in` is set, this option may not be set."  [S7] read, as C13 does
   ("start-up input is combined with a non-pipe stdin"), as: stdin must resolve to a pipe
   (:266 "`input` is written to the stdin pipe").  `input` is set when `data` is non-NULL.
                                                                        rule input-nonpipe *)
Definition input_needs_pipe (o : options) : bool :=
  o_input_data o ==> (doc_effective o IN =? REPROC_REDIRECT_PIPE).
(* C13: "... or has a size without data".                     rule input-size-without-data *)
Definition input_size_has_data (o : options) : bool :=
  (0 <? o_input_size o) ==> o_input_data o.

(** * fork and argv (reproc.h:279-289, :340-348) *)

(* :288 "When `fork` is enabled. `argv` must be `NULL` when calling `reproc_start`."
                                                                            rule fork-argv *)
Definition fork_without_argv (o : options) (argv : argv_form) : bool :=
  o_fork o ==> match argv with ArgvNull => true | _ => false end.
(* :343-345 "The first element indicates the executable to run as a child process. ... It
   cannot be `NULL`."  [S8] without `fork`, `argv` itself must be given.  rule argv-missing *)
Definition argv_given (o : options) (argv : argv_form) : bool :=
  negb (o_fork o) ==> match argv with ArgvOk => true | _ => false end.

(** * The specification *)

Inductive rule :=
| Two_targets | Handle_missing | File_missing | Path_missing | Stdout_type
| Shorthand_explicit | Shorthand_conflict
| Input_nonpipe | Input_size_without_data | Fork_argv | Argv_missing.

(* (rule id, stream it is about or -1, does the clause hold?) *)
Definition stream_clauses (o : options) (s : Z) : list (rule * Z * bool) :=
  let r := stream_of o s in
  [ (Two_targets, s, one_target r);
    (Handle_missing, s, has_handle r); (File_missing, s, has_file r); (Path_missing, s, has_path r);
    (Stdout_type, s, stdout_only_err r s) ].

Definition clauses (o : options) (argv : argv_form) : list (rule * Z * bool) :=
  stream_clauses o IN ++ stream_clauses o OUT ++ stream_clauses o ERR ++
  [ (Shorthand_explicit, -1, shorthand_vs_explicit o);
    (Shorthand_conflict, -1, shorthands_compatible o);
    (Input_nonpipe, -1, input_needs_pipe o);
    (Input_size_without_data, -1, input_size_has_data o);
    (Fork_argv, -1, fork_without_argv o argv);
    (Argv_missing, -1, argv_given o argv) ].

(* The options are acceptable iff every clause holds. *)
Definition doc_ok (o : options) (argv : argv_form) : bool :=
  forallb (fun c => snd c) (clauses o argv).

(* The clauses that fail, in table order (the harness names a violation after the first). *)
Definition doc_violations (o : options) (argv : argv_form) : list (rule * Z) :=
  map fst (filter (fun c => negb (snd c)) (clauses o argv)).

(* :262 "When `deadline` is zero, no deadline is set for the process." *)
Definition doc_deadline (o : options) : Z :=
  if o_deadline o =? 0 then REPROC_INFINITE else o_deadline o.

(* :491-494 "When `stop` is 3x `REPROC_STOP_NOOP`, `reproc_destroy` will wait until the
   deadline expires (or forever if there is no deadline). If the process is still running
   after the deadline expires, `reproc_stop` then calls `reproc_terminate` and waits forever
   for the process to exit." *)
Definition stop_all_noop (s : stop_actions) : bool :=
  (sa_action (st_first s) =? REPROC_STOP_NOOP) && (sa_action (st_second s) =? REPROC_STOP_NOOP)
  && (sa_action (st_third s) =? REPROC_STOP_NOOP).
Definition doc_stop (o : options) : stop_actions :=
  if stop_all_noop (o_stop o)
  then {| st_first  := {| sa_action := REPROC_STOP_WAIT; sa_timeout := REPROC_DEADLINE |};
          st_second := {| sa_action := REPROC_STOP_TERMINATE; sa_timeout := REPROC_INFINITE |};
          st_third  := st_third (o_stop o) |}
  else o_stop o.

(* The options as Start goes on to use them: each stream resolved, the deadline and stop
   defaults applied, and (nothing in the comments says otherwise) every other member as given. *)
Definition doc_resolved_stream (o : options) (s : Z) : redirect :=
  {| rd_type := doc_effective o s; rd_handle := rd_handle (stream_of o s);
     rd_file := doc_effective_file o s; rd_path := doc_effective_path o s |}.
Definition doc_resolved (o : options) : options :=
  {| o_wd := o_wd o; o_env_behavior := o_env_behavior o; o_env_extra := o_env_extra o;
     o_in := doc_resolved_stream o IN; o_out := doc_resolved_stream o OUT; o_err := doc_resolved_stream o ERR;
     o_parent := o_parent o; o_discard := o_discard o; o_file := o_file o; o_path := o_path o;
     o_stop := doc_stop o; o_deadline := doc_deadline o;
     o_input_data := o_input_data o; o_input_size := o_input_size o; o_fork := o_fork o;
     o_nonblocking := o_nonblocking o |}.

(* `(reproc_options){ 0 }`: everything unset. *)
Definition redirect_zero : redirect := {| rd_type := 0; rd_handle := 0; rd_file := 0; rd_path := None |}.
Definition noop : stop_action := {| sa_action := REPROC_STOP_NOOP; sa_timeout := 0 |}.
Definition options_zero : options :=
  {| o_wd := None; o_env_behavior := REPROC_ENV_EXTEND; o_env_extra := None;
     o_in := redirect_zero; o_out := redirect_zero; o_err := redirect_zero;
     o_parent := false; o_discard := false; o_file := 0; o_path := None;
     o_stop := {| st_first := noop; st_second := noop; st_third := noop |}; o_deadline := 0;
     o_input_data := false; o_input_size := 0; o_fork := false; o_nonblocking := false |}.

(** * Where the specification claims to be complete *)
(* [S4] The comments define eight redirect types (:55-73) and say nothing about other
   values of `type`.  C13's accept/reject claims are made for options whose three types
   are among the eight; outside, [doc_ok] only keeps what the quoted clauses literally
   imply (e.g. "if `handle` is set, `type` must be unset or HANDLE"). *)
Definition type_in_range (t : Z) : Prop := REPROC_REDIRECT_DEFAULT <= t <= REPROC_REDIRECT_PATH.
Definition types_in_range (o : options) : Prop :=
  type_in_range (rd_type (o_in o)) /\ type_in_range (rd_type (o_out o)) /\ type_in_range (rd_type (o_err o)).
Definition type_in_rangeb (t : Z) : bool := (REPROC_REDIRECT_DEFAULT <=? t) && (t <=? REPROC_REDIRECT_PATH).
