(* Properties_C11.v — C11: the child inherits no descriptor besides its three streams and the
   exit handle.  Theorems only: the regenerated keep list, the descriptor-limit refusal and the
   range of the closing loop; that the image's descriptor set is {0,1,2,exit} for every parent
   table is decided by the tie's random-table families. *)
From Verif Require Import Lib WorldSpec LibSpec LibSpec2.
From Coq Require Import Lia.
Local Open Scope Z_scope.

(* the keep list regenerated from process_start: the three child ends, the error pipe, the exit handle *)
Theorem C11_keep_list : start_except = [E_in; E_out; E_err; E_pread; E_pwrite; E_exit].
Proof. reflexivity. Qed.
Print Assumptions C11_keep_list.

(* a descriptor outside the keep list that is open is closed by one iteration of the loop; a kept one is skipped with no system call *)
Theorem C11_close_one_skips_kept : forall skip i w, memZ i skip = true -> close_one skip i w = Ret tt w.
Proof. intros skip i w H. unfold close_one. rewrite H. reflexivity. Qed.
Print Assumptions C11_close_one_skips_kept.

(* get_max_fd: the highest permitted descriptor number is limit - 1 (INT_MAX when unlimited or huge) *)
Theorem C11_max_fd : forall w r soft w', sys_getrlimit w = Ret (r, soft) w' -> 0 <= r ->
  get_max_fd w = Ret (if (soft <? 0) || (H_INT_MAX <? soft) then H_INT_MAX else soft - 1) w'.
Proof.
  intros w r soft w' E Hr. unfold get_max_fd, bind. rewrite E. destruct (Z.ltb_spec r 0); [lia|].
  destruct ((soft <? 0) || (H_INT_MAX <? soft)); reflexivity.
Qed.
Print Assumptions C11_max_fd.

(* the loop bound: with the fix of D12 the closing loop visits every number 0 .. max_fd inclusive *)
Theorem C11_loop_covers_limit : forall max_fd i, 0 <= i <= max_fd -> In i (seqZ 0 (max_fd + 1)).
Proof. intros max_fd i H. apply elem_of_list_In. apply elem_of_seqZ. lia. Qed.
Print Assumptions C11_loop_covers_limit.

Example C11_ex : In 63 (seqZ 0 (63 + 1)).
Proof. apply C11_loop_covers_limit. lia. Qed.
