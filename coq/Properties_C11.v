(* Properties_C11.v — C11: the child inherits no descriptor besides its three streams and the
   exit handle.  Theorems only: the regenerated keep list, the descriptor-limit refusal and the
   range of the closing loop; that the image's descriptor set is {0,1,2,exit} for every parent
   table is decided by the tie's random-table families. *)
From Verif Require Import Lib WorldSpec WorldSpec2 LibSpec LibSpec2 ChildSpec Build ForkChild.
From Coq Require Import Lia.
Local Open Scope Z_scope.

(* the keep list regenerated from process_start: the three child ends, the error pipe, the exit handle *)
Theorem C11_keep_list : start_except = [E_in; E_out; E_err; E_pread; E_pwrite; E_exit].
Proof. reflexivity. Qed.
Print Assumptions C11_keep_list.

(* a descriptor outside the keep list that is open is closed by one iteration of the loop; a kept one is skipped with no system call *)
Theorem C11_close_one_skips_kept : forall skip i w, memZ i skip = true -> close_one skip i w = Ret tt w.
Proof. intros skip i w H. unfold close_one. rewrite H. reflexivity. Qed.
Print Assumptions C11_close_one_skips_kept.

(* get_max_fd: the highest permitted descriptor number is limit - 1 (INT_MAX when unlimited or huge) *)
Theorem C11_max_fd : forall w r soft w', sys_getrlimit w = Ret (r, soft) w' -> 0 <= r ->
  get_max_fd w = Ret (if (soft <? 0) || (H_INT_MAX <? soft) then H_INT_MAX else soft - 1) w'.
Proof.
  intros w r soft w' E Hr. unfold get_max_fd, bind. rewrite E. destruct (Z.ltb_spec r 0); [lia|].
  destruct ((soft <? 0) || (H_INT_MAX <? soft)); reflexivity.
Qed.
Print Assumptions C11_max_fd.

(* the loop bound: with the fix of D12 the closing loop visits every number 0 .. max_fd inclusive *)
Theorem C11_loop_covers_limit : forall max_fd i, 0 <= i <= max_fd -> In i (seqZ 0 (max_fd + 1)).
Proof. intros max_fd i H. apply elem_of_list_In. apply elem_of_seqZ. lia. Qed.
Print Assumptions C11_loop_covers_limit.

(* THE LOOP, for every table: after the closing loop over 0..max_fd, a descriptor that is still
   open is one the table already had and is either in the keep list or outside 0..max_fd *)
Theorem C11_close_loop_all_tables : forall skip t max_fd k d, 0 <= max_fd + 1 ->
  foldl (close_step skip) t (seqZ 0 (max_fd + 1)) !! k = Some d ->
  t !! k = Some d /\ (memZ k skip = true \/ k < 0 \/ max_fd < k).
Proof. exact close_loop_result. Qed.
Print Assumptions C11_close_loop_all_tables.

(* the monadic loop of the model computes exactly that fold on the current process's table
   (state-aware Hoare triple; every fault-free world) *)
Theorem C11_close_loop_refines : forall (QS : world -> Prop) skip l p, Forall (fun i => 0 <= i) l ->
  hoare (st p) (mapM_ (close_one skip) l) (fun _ w' => st (pr_with_fds (foldl (close_step skip) (pr_fds p) l) p) w') QS.
Proof. intros QS. exact (@h_close_loop QS). Qed.
Print Assumptions C11_close_loop_refines.

(* THE CHILD, for every parent table: whatever descriptors the forked child inherited (any
   table, any flags, all below the limit L), whatever the child ends and the two error pipes
   are — if the child reaches a successful exec, every descriptor of the program's image is
   0, 1, 2 or the exit handle; and the child code never returns to its caller in exec mode.
   Covers the whole child side: signal reset, mask, limit, closing loop, moving low ends out of
   the way, the dup2 loop with its close-on-exec handling, the exit handle, chdir, environ, exec,
   and every natural failure exit (which ends in _exit without an image). *)
Theorem C11_child_image_descriptors : forall L t fprd fpwr sprd spwr av pg env o (k : MW unit) w,
  0 <= L ->
  (forall x, is_Some (t !! x) -> 0 <= x < L) ->
  (forall d, t !! sprd = Some d -> f_cloexec d = true) ->
  (forall d, t !! spwr = Some d -> f_cloexec d = true) ->
  stf L t w ->
  match fork_child_part fprd fpwr [po_in o; po_out o; po_err o; sprd; spwr; po_exit o]
                        (start_child_part sprd spwr (Some av) pg env o k) w with
  | Ret _ _ => False
  | Stop w' => forall im, pr_image (curp w') = Some im ->
                 forall x d, In (x, d) (im_fds im) -> 0 <= x <= 2 \/ x = po_exit o
  | Hang _ | Crash _ _ => True
  end.
Proof. exact child_image_descriptors. Qed.
Print Assumptions C11_child_image_descriptors.

(* non-vacuity: a concrete well-formed fault-free world satisfies the state predicate *)
Example C11_ex_state :
  let w := build_world 1000 0 7 [(0, {| f_obj := OExt 1 ARd; f_cloexec := false; f_nonblock := false |});
                                 (5, {| f_obj := OExt 2 ARW; f_cloexec := false; f_nonblock := false |})]
                       [] [] [47] [] 24 [] [] [] [] in
  stf 24 (pr_fds (curp w)) w.
Proof.
  cbn zeta. eexists. split; [|repeat split; reflexivity].
  split; [|split; reflexivity]. split.
  - eexists. split; [apply lookup_singleton|]. split; reflexivity.
  - intros k [x Hk]. cbn in Hk. apply lookup_singleton_Some in Hk. destruct Hk as [<- _]. cbn. lia.
Qed.

Example C11_ex : In 63 (seqZ 0 (63 + 1)).
Proof. apply C11_loop_covers_limit. lia. Qed.

(* THE CHILD WHEN NO EXEC FOLLOWS (fork mode), for every parent table: whatever descriptors the
   forked child inherited (any table, any flags -- close-on-exec does not help here --, all below
   the limit L), whatever the keep list and the error pipe's ends are: when the child side of
   process_fork gives control back, the child's table is a sub-table of the inherited one that
   holds ONLY numbers of the keep list (the error pipe's own ends excepted), and every kept
   descriptor is exactly what it was.  A child that does not come back exited without an image. *)
Theorem C11_fork_child_keeps_only_listed : forall L t prd pwr except w,
  0 <= L -> (forall x, is_Some (t !! x) -> 0 <= x < L) -> stf L t w ->
  match fork_child_part prd pwr except (ret tt) w with
  | Ret _ w' => exists t', stf L t' w' /\
      (forall x d, t' !! x = Some d -> t !! x = Some d /\ memZ x except = true /\ x <> prd /\ x <> pwr) /\
      (forall x, memZ x except = true -> x <> prd -> x <> pwr -> t' !! x = t !! x)
  | Stop w' => pr_image (curp w') = None
  | Hang _ | Crash _ _ => True
  end.
Proof. exact fork_child_table. Qed.
Print Assumptions C11_fork_child_keeps_only_listed.

(* the same as a rule for whatever the child runs next (the child side of process_start, the
   caller's own code): it starts in such a table *)
Theorem C11_fork_child_continuation : forall G L t prd pwr except (k : MW unit) (Post : unit -> world -> Prop),
  0 <= L -> (forall x, is_Some (t !! x) -> 0 <= x < L) ->
  (forall t', kept_only t prd pwr except t' -> hoare (stf L t') k Post (QSG G)) ->
  hoare (stf L t) (fork_child_part prd pwr except k) Post (QSG G).
Proof. exact fork_child_reaches_k. Qed.
Print Assumptions C11_fork_child_continuation.

(* not vacuous, and the flags do not matter: descriptors 6 and 9 are close-on-exec, 5 and 11 are
   not; with keep list [0; 6; 7] and the error pipe on 9 and 12 the child comes back with 0 and 6 *)
Example C11_fork_child_ex :
  let w := build_world 1000 0 7 [(0, {| f_obj := OExt 1 ARd; f_cloexec := false; f_nonblock := false |});
                                 (5, {| f_obj := OExt 2 ARW; f_cloexec := false; f_nonblock := false |});
                                 (6, {| f_obj := OExt 3 ARW; f_cloexec := true; f_nonblock := false |});
                                 (9, {| f_obj := OExt 4 ARW; f_cloexec := true; f_nonblock := false |});
                                 (11, {| f_obj := OExt 5 ARW; f_cloexec := false; f_nonblock := false |})]
                       [] [] [47] [] 24 [] [] [] [] in
  match fork_child_part 9 12 [0; 6; 7] (ret tt) w with
  | Ret _ w' => map fst (map_to_list (pr_fds (curp w'))) = [0; 6]
  | _ => False
  end.
Proof. vm_compute. reflexivity. Qed.
