(* StartSpec.v — what the RESULT of start means, for EVERY fault plan:
   process_start returns either a negative error with the handle untouched, or 1 with the
   positive pid that the fork call of this very start returned.  A failure of any call never
   surfaces as success (the error number read after a failed call is positive), and a handle
   reported as running never refers to pid 0, -1 or some other process. *)
From Verif Require Import Lib WorldSpec WorldSpec2 LibSpec WaitSpec ParentSpec.
From Coq Require Import Lia.
Local Open Scope Z_scope.

(* ---- triples over well-formed worlds; pcpost (hence: same process, growing trace, growing
   block counter) comes for free with every step ---- *)
Definition tr {A} (P : world -> Prop) (m : MW A) (Q : A -> world -> Prop) : Prop :=
  forall w, wf w -> P w -> match m w with Ret a w' => pcpost w w' /\ Q a w' | _ => True end.

Lemma tr_ret {A} (a : A) (P : world -> Prop) (Q : A -> world -> Prop) : (forall w, P w -> Q a w) -> tr P (ret a) Q.
Proof. intros H w W Hp. cbn. split; [apply pcpost_refl, W|apply H, Hp]. Qed.
Lemma tr_bind {A B} (m : MW A) (f : A -> MW B) P (R : A -> world -> Prop) Q :
  tr P m R -> (forall a, tr (R a) (f a) Q) -> tr P (bind m f) Q.
Proof.
  intros Hm Hf w W Hp. unfold bind. specialize (Hm w W Hp). destruct (m w) as [a w1|w1|w1|y w1]; auto.
  destruct Hm as [P1 R1]. specialize (Hf a w1 ltac:(apply P1) R1). destruct (f a w1); auto.
  destruct Hf as [P2 Q2]. split; [exact (pcpost_trans _ _ _ P1 P2)|exact Q2].
Qed.
Lemma tr_conseq {A} (m : MW A) (P P' : world -> Prop) (Q Q' : A -> world -> Prop) :
  (forall w, P' w -> P w) -> (forall a w, Q a w -> Q' a w) -> tr P m Q -> tr P' m Q'.
Proof. intros HP HQ H w W Hp. specialize (H w W (HP w Hp)). destruct (m w); auto. destruct H. split; auto. Qed.
Lemma tr_pure {A} (P0 : Prop) (P : world -> Prop) (m : MW A) Q : (P0 -> tr P m Q) -> tr (fun w => P0 /\ P w) m Q.
Proof. intros H w W [H0 Hp]. apply (H H0 w W Hp). Qed.
Lemma tr_of_pc {A} (m : MW A) P : pc m -> tr P m (fun _ _ => True).
Proof. intros H w W _. specialize (H w W). destruct (m w); auto. Qed.
Lemma tr_pre {A} (m : MW A) (P : world -> Prop) Q : (forall w, P w -> tr (fun w' => w' = w) m Q) -> tr P m Q.
Proof. intros H w W Hp. apply (H w Hp w W eq_refl). Qed.

(* facts that every step preserves because the trace and the block counter only grow *)
Definition NB (w : world) : Prop := 0 < w_next_blk w.
Lemma NB_mono w w' : pcpost w w' -> NB w -> NB w'.
Proof. intros (_ & _ & _ & _ & B) H. unfold NB in *. lia. Qed.
(* a fork call of the current process that returned [pid], logged after [base] *)
Definition FK (base : list event) (pid : Z) (w' : world) : Prop :=
  exists l ev, w_trace w' = l ++ base /\ In ev l /\ e_call ev = CFork /\ e_ret ev = pid /\ e_pid ev = w_cur w'.
Lemma FK_mono base pid w w' : pcpost w w' -> FK base pid w -> FK base pid w'.
Proof.
  intros (_ & C & _ & (l & T) & _) (l1 & ev & T1 & Hin & Hc & Hr & Hp). exists (l ++ l1), ev.
  split; [rewrite T, T1, app_assoc; reflexivity|]. split; [apply in_or_app; right; exact Hin|]. rewrite C. auto.
Qed.

(* strengthen a triple with a monotone fact *)
Lemma tr_mono {A} (M : world -> Prop) (m : MW A) P Q :
  (forall w w', pcpost w w' -> M w -> M w') -> tr P m Q -> tr (fun w => M w /\ P w) m (fun a w' => M w' /\ Q a w').
Proof.
  intros HM H w W [Hm Hp]. specialize (H w W Hp). destruct (m w); auto. destruct H as [P1 Q1].
  split; [exact P1|]. split; [eapply HM; eassumption|exact Q1].
Qed.

(* ---- errno ---- *)
Definition E (e : Z) (w : world) : Prop := pr_errno (curp w) = e.
Definition EP (w : world) : Prop := 0 < pr_errno (curp w).

Lemma tr_get_errno (P : world -> Prop) : tr P get_errno (fun e w' => P w' /\ E e w').
Proof. intros w W Hp. cbn. split; [apply pcpost_refl, W|]. split; [exact Hp|reflexivity]. Qed.

Lemma tr_fail c a s e P : tr P (fail c a s e) (fun r w' => r = -1 /\ E e w').
Proof.
  intros w W _. destruct (fail_val c a s e w W) as (w' & Ef & Ee). pose proof (pc_fail c a s e w W) as Hp.
  rewrite Ef in Hp. rewrite Ef. auto.
Qed.
Lemma tr_failb c a s e P : tr P (failb c a s e) (fun r w' => r = -1 /\ E e w').
Proof.
  intros w W _. destruct (failb_val c a s e w W) as (w' & Ef & Ee). pose proof (pc_failb c a s e w W) as Hp.
  rewrite Ef in Hp. rewrite Ef. auto.
Qed.

(* errno survives a log, a prelude, and therefore free *)
Lemma E_prelude e : tr (E e) prelude (fun _ w' => E e w').
Proof.
  intros w W He. pose proof (prelude_spec w W) as H. pose proof (pc_prelude w W) as Hp.
  destruct (prelude w); auto. destruct H as (_ & _ & P1 & _). split; [exact Hp|]. unfold E. rewrite P1. exact He.
Qed.
Lemma E_log e c a s r o b : tr (E e) (log c a s r o b) (fun _ w' => E e w').
Proof. intros w W He. pose proof (pc_log c a s r o b w W) as Hp. cbn in *. split; [exact Hp|exact He]. Qed.
Lemma E_sys_free e id : tr (E e) (sys_free id) (fun _ w' => E e w').
Proof.
  unfold sys_free. eapply tr_bind; [apply E_prelude|]. intros u; cbv beta.
  destruct (id =? 0); [apply E_log|].
  intros w W He. unfold bind at 1, get. cbv beta iota.
  destruct (negb (in_main w)); [apply (E_log e _ _ _ _ _ _ w W He)|].
  destruct (heap_live id w); [|apply (E_log e _ _ _ _ _ _ w W He)].
  set (w1 := w_with_heap (<[id := (false, 0)]> (w_heap w)) (w_next_blk w) w).
  assert (P1 : pcpost w w1) by (apply pcpost_heap; [exact W|lia]).
  pose proof (E_log e CFree [id] [] 0 [] 0 w1 ltac:(apply P1) He) as H2.
  change ((modify (fun w0 : world => w_with_heap (<[id := (false, 0)]> (w_heap w0)) (w_next_blk w0) w0);> log CFree [id] [] 0 [] 0) w)
    with (log CFree [id] [] 0 [] 0 w1).
  cbn in *. destruct H2 as [P2 E2]. split; [exact (pcpost_trans _ _ _ P1 P2)|exact E2].
Qed.
Lemma E_mapM_free {A} e (g : A -> Z) l : tr (E e) (mapM_ (fun x => sys_free (g x)) l) (fun _ w' => E e w').
Proof.
  induction l as [|x l IH]; cbn [mapM_]; [apply tr_ret; auto|].
  eapply tr_bind; [apply E_sys_free|]. intros u; cbv beta. exact IH.
Qed.

(* ---- run equations for the little failure/success tails ---- *)
Lemma run_seterr_log_ret {A} e c a s r o b (x : A) w :
  (set_errno e;> log c a s r o b;> ret x) w =
  Ret x (w_with_trace (mkev c a s r o b (upd_cur (pr_with_errno e) w) :: w_trace (upd_cur (pr_with_errno e) w)) (upd_cur (pr_with_errno e) w)).
Proof. reflexivity. Qed.
Lemma E_after_seterr e t w : wf w -> E e (w_with_trace t (upd_cur (pr_with_errno e) w)).
Proof. intros W. unfold E. change (curp (w_with_trace t ?x)) with (curp x). rewrite curp_upd_cur by exact W. reflexivity. Qed.

(* ---- allocation: a failed allocation leaves a positive errno; a successful one a live block ---- *)
Definition LV (id : Z) (w : world) : Prop := in_main w = false \/ heap_live id w = true.
Lemma LV_same id w w' : w_heap w' = w_heap w -> w_main w' = w_main w -> w_cur w' = w_cur w -> LV id w -> LV id w'.
Proof. unfold LV, in_main, heap_live. intros -> -> ->. auto. Qed.

Lemma S_heap_alloc c a sz : tr NB (heap_alloc c a sz) (fun id w' => (id = 0 /\ EP w') \/ (0 < id /\ LV id w')).
Proof.
  intros w W Hnb. pose proof (pc_heap_alloc c a sz w W) as Hpc.
  unfold heap_alloc in *. unfold bind at 1 in Hpc. unfold bind at 1.
  pose proof (prelude_spec w W) as Hp. pose proof (prelude_blk w) as Hb.
  destruct (prelude w) as [f w0|w0|w0|y w0]; auto.
  destruct Hp as (W0 & C0 & _). destruct f as [e|].
  - rewrite run_seterr_log_ret in *. split; [exact Hpc|]. left. split; [reflexivity|].
    unfold EP. rewrite (E_after_seterr (Z.pos e) _ w0 W0). lia.
  - unfold bind at 1, gets in Hpc. unfold bind at 1, gets. cbv beta iota in *.
    set (f := fun w1 : world => if in_main w1 then w_with_heap (<[w_next_blk w0 := (true, sz)]> (w_heap w1)) (w_next_blk w0 + 1) w1
                                else w_with_heap (w_heap w1) (w_next_blk w0 + 1) w1) in *.
    change ((modify f;> log c a [] (w_next_blk w0) [] 0;> ret (w_next_blk w0)) w0)
      with (Ret (A := Z) (w_next_blk w0) (w_with_trace (mkev c a [] (w_next_blk w0) [] 0 (f w0) :: w_trace (f w0)) (f w0))) in *.
    split; [exact Hpc|]. right. unfold NB in Hnb. split; [lia|].
    unfold LV, in_main, heap_live, f, in_main. cbn [w_cur w_main w_heap w_with_trace].
    destruct (w_cur w0 =? w_main w0) eqn:Em; cbn [w_cur w_main w_heap w_with_heap]; rewrite Em; [right|left; reflexivity].
    rewrite lookup_insert. reflexivity.
Qed.

Lemma heap_upd_cur f w : w_heap (upd_cur f w) = w_heap w.
Proof. unfold upd_cur, upd_proc. destruct (w_procs w !! w_cur w); reflexivity. Qed.
Lemma main_upd_cur f w : w_main (upd_cur f w) = w_main w.
Proof. unfold upd_cur, upd_proc. destruct (w_procs w !! w_cur w); reflexivity. Qed.
Lemma cur_upd_cur f w : w_cur (upd_cur f w) = w_cur w.
Proof. unfold upd_cur. apply cur_upd_proc. Qed.

Lemma run_fail_ret {A} c a s e (x : A) w :
  (fail c a s e;> ret x) w =
  Ret x (w_with_trace (mkev c a s (-1) [] 0 (upd_cur (pr_with_errno e) w) :: w_trace (upd_cur (pr_with_errno e) w)) (upd_cur (pr_with_errno e) w)).
Proof. reflexivity. Qed.
Lemma run_done_ret {A} c a s r o (x : A) w :
  (done c a s r o;> ret x) w = Ret x (w_with_trace (mkev c a s r o 0 w :: w_trace w) w).
Proof. reflexivity. Qed.

(* getcwd: 0, or -1 with a positive errno; the heap is not touched *)
Lemma S_getcwd id n : tr (LV id) (sys_getcwd n) (fun rc w' => LV id w' /\ (fst rc = 0 \/ (fst rc = -1 /\ EP w'))).
Proof.
  intros w W Hl. pose proof (pc_sys_getcwd n w W) as Hpc.
  unfold sys_getcwd in *. unfold bind at 1 in Hpc. unfold bind at 1.
  pose proof (prelude_spec w W) as Hp.
  destruct (prelude w) as [f w0|w0|w0|y w0]; auto.
  destruct Hp as (W0 & C0 & _ & _ & _ & _ & _ & M0 & H0 & _).
  assert (L0 : LV id w0) by (eapply LV_same; eassumption).
  assert (Hfail : forall e, 0 < e ->
    match (fail CGetcwd [n] [] e;> ret (-1, @nil Z)) w0 with Ret rc w' => LV id w' /\ (fst rc = 0 \/ (fst rc = -1 /\ EP w')) | _ => True end).
  { intros e He. rewrite run_fail_ret. split.
    - eapply LV_same; [| | |exact L0]; cbn [w_heap w_main w_cur w_with_trace]; [apply heap_upd_cur|apply main_upd_cur|apply cur_upd_cur].
    - right. split; [reflexivity|]. unfold EP. rewrite (E_after_seterr e _ w0 W0). exact He. }
  destruct f as [e|].
  - specialize (Hfail (Z.pos e) ltac:(lia)). destruct ((fail CGetcwd [n] [] (Z.pos e);> ret (-1, [])) w0); auto.
  - unfold bind at 1, get in Hpc. unfold bind at 1, get. cbv beta iota zeta in *.
    destruct (n <? zlen (pr_cwd (curp w0)) + 1).
    + specialize (Hfail ERANGE ltac:(unfold ERANGE; lia)). destruct ((fail CGetcwd [n] [] ERANGE;> ret (-1, [])) w0); auto.
    + rewrite run_done_ret in *. split; [exact Hpc|]. split; [|left; reflexivity].
      eapply LV_same; [| | |exact L0]; reflexivity.
Qed.

(* realloc of a live block: 0 with a positive errno, or a new live block *)
Lemma S_realloc id n : tr (fun w => NB w /\ LV id w) (sys_realloc id n) (fun nb w' => (nb = 0 /\ EP w') \/ (0 < nb /\ LV nb w')).
Proof.
  intros w W [Hnb Hl]. pose proof (pc_sys_realloc id n w W) as Hpc.
  unfold sys_realloc in *. unfold bind at 1 in Hpc. unfold bind at 1.
  pose proof (prelude_spec w W) as Hp. pose proof (prelude_blk w) as Hb.
  destruct (prelude w) as [f w0|w0|w0|y w0]; auto.
  destruct Hp as (W0 & C0 & _ & _ & _ & _ & _ & M0 & H0 & _).
  assert (L0 : LV id w0) by (eapply LV_same; eassumption).
  destruct f as [e|].
  - rewrite run_seterr_log_ret in *. split; [exact Hpc|]. left. split; [reflexivity|].
    unfold EP. rewrite (E_after_seterr (Z.pos e) _ w0 W0). lia.
  - unfold bind at 1, get in Hpc. unfold bind at 1, get. cbv beta iota in *.
    unfold NB in Hnb. unfold LV in L0.
    destruct (in_main w0) eqn:Em; cbn [negb] in *.
    + destruct L0 as [L0|L0]; [discriminate|]. rewrite L0, orb_true_r in *. cbv zeta in *.
      set (h := <[w_next_blk w0 := (true, n)]> (if id =? 0 then w_heap w0 else <[id := (false, 0)]> (w_heap w0))) in *.
      change ((modify (fun w1 : world => w_with_heap (<[w_next_blk w0 := (true, n)]> (if id =? 0 then w_heap w1 else <[id := (false, 0)]> (w_heap w1))) (w_next_blk w0 + 1) w1);>
               log CRealloc [id; n] [] (w_next_blk w0) [] 0;> ret (w_next_blk w0)) w0)
        with (Ret (A := Z) (w_next_blk w0) (w_with_trace (mkev CRealloc [id; n] [] (w_next_blk w0) [] 0 (w_with_heap h (w_next_blk w0 + 1) w0) :: w_trace w0) (w_with_heap h (w_next_blk w0 + 1) w0))) in *.
      split; [exact Hpc|]. right. split; [lia|]. right. unfold heap_live, h. cbn [w_heap w_with_trace w_with_heap]. rewrite lookup_insert. reflexivity.
    + change ((modify (fun w1 : world => w_with_heap (w_heap w1) (w_next_blk w1 + 1) w1);> log CRealloc [id; n] [] (w_next_blk w0) [] 0;> ret (w_next_blk w0)) w0)
        with (Ret (A := Z) (w_next_blk w0) (w_with_trace (mkev CRealloc [id; n] [] (w_next_blk w0) [] 0 (w_with_heap (w_heap w0) (w_next_blk w0 + 1) w0) :: w_trace w0) (w_with_heap (w_heap w0) (w_next_blk w0 + 1) w0))) in *.
      split; [exact Hpc|]. right. split; [lia|]. left. unfold in_main in *. exact Em.
Qed.

Lemma EP_of_E e w : 0 < e -> E e w -> EP w.
Proof. unfold E, EP. intros He ->. exact He. Qed.

Lemma S_prepend_loop fuel : forall blk cs ps,
  tr (fun w => NB w /\ LV blk w) (prepend_loop fuel blk cs ps) (fun r w' => r = None -> EP w').
Proof.
  induction fuel as [|f IH]; intros blk cs ps; cbn [prepend_loop]; [intros w W _; exact I|].
  eapply tr_bind.
  { apply (tr_mono NB). { intros; eapply NB_mono; eassumption. } apply (S_getcwd blk). }
  intros [r cwd]; cbv beta. cbn [fst].
  destruct (Z.eqb_spec r 0) as [->|Hr]; [apply tr_ret; intros; discriminate|].
  eapply tr_conseq with (P := fun w => NB w /\ LV blk w /\ EP w); [| intros a w X; exact X|].
  { intros w (Hnb & Hl & [H0|[_ He]]); [contradiction|auto]. }
  eapply tr_bind; [apply tr_get_errno|]. intros e; cbv beta.
  apply tr_pre. intros w0 ((Hnb & Hl & Hep) & He).
  assert (Hpos : 0 < e) by (unfold E, EP in *; lia).
  destruct (negb (e =? ERANGE)).
  { eapply tr_bind; [eapply tr_conseq; [| |apply (E_sys_free e blk)]; [intros w ->; exact He|intros a w X; exact X]|].
    intros u; cbv beta. apply tr_ret. intros w Hw _. eapply EP_of_E; eassumption. }
  cbv zeta.
  assert (SR : tr (fun w => w = w0) (sys_realloc blk (cs + CWD_BUF_SIZE_INCREMENT + ps + 1))
                  (fun nb w' => NB w' /\ ((nb = 0 /\ EP w') \/ (0 < nb /\ LV nb w')))).
  { eapply tr_conseq; [| |apply (tr_mono NB _ _ _ ltac:(intros; eapply NB_mono; eassumption) (S_realloc blk _))].
    - intros w ->. auto.
    - intros a w X; exact X. }
  eapply tr_bind; [exact SR|]. intros nb; cbv beta.
  destruct (Z.eqb_spec nb 0) as [->|Hnz].
  - apply tr_pre. intros w1 [_ [[_ Hep1]|[Hlt _]]]; [|lia].
    unfold EP in Hep1. set (e1 := pr_errno (curp w1)) in *.
    eapply tr_bind; [eapply tr_conseq; [| |apply (E_sys_free e1 blk)]; [intros w ->; reflexivity|intros a w X; exact X]|].
    intros u; cbv beta. apply tr_ret. intros w Hw _. eapply EP_of_E; eassumption.
  - eapply tr_conseq; [| |apply (IH nb)]; [|intros a w X; exact X].
    intros w [Hnb1 [[Hz _]|[_ Hl1]]]; [contradiction|]. split; assumption.
Qed.

Lemma tr_nb {A} (m : MW A) (P : world -> Prop) Q : (forall w, P w -> NB w) -> tr P m Q -> tr P m (fun a w' => NB w' /\ Q a w').
Proof.
  intros HP H. eapply tr_conseq; [| |apply (tr_mono NB _ _ _ ltac:(intros; eapply NB_mono; eassumption) H)].
  - intros w X. split; [apply HP, X|exact X].
  - intros a w X; exact X.
Qed.

Lemma S_path_prepend_cwd path : tr NB (path_prepend_cwd path) (fun r w' => r = None -> EP w').
Proof.
  unfold path_prepend_cwd. cbv zeta.
  eapply tr_bind; [apply tr_nb; [auto|apply S_heap_alloc]|]. intros blk; cbv beta.
  destruct (Z.eqb_spec blk 0) as [->|Hnz].
  { apply tr_pre. intros w0 [_ [[_ He]|[Hlt _]]]; [|lia]. apply tr_ret. intros w -> _. exact He. }
  eapply tr_bind with (R := fun _ w => NB w /\ LV blk w).
  { intros w W [Hnb [[Hz _]|[_ Hl]]]; [contradiction|]. cbn. split; [apply pcpost_refl, W|auto]. }
  intros cl; cbv beta.
  eapply tr_bind; [apply S_prepend_loop|]. intros [[b cwd]|]; cbv beta.
  - apply tr_ret. intros; discriminate.
  - apply tr_ret. intros w H _. apply H. reflexivity.
Qed.

Lemma S_dup_all l : forall acc, tr NB (dup_all l acc) (fun r w' => r = None -> EP w').
Proof.
  induction l as [|s r IH]; intros acc; cbn [dup_all]; [apply tr_ret; intros; discriminate|].
  eapply tr_bind; [apply tr_nb; [auto|apply S_heap_alloc]|]. intros b; cbv beta.
  destruct (Z.eqb_spec b 0) as [->|Hnz].
  - apply tr_pre. intros w0 [_ [[_ He]|[Hlt _]]]; [|lia].
    unfold EP in He. set (e1 := pr_errno (curp w0)) in *.
    eapply tr_bind; [eapply tr_conseq; [| |apply (E_mapM_free e1 fst)]; [intros w ->; reflexivity|intros a w X; exact X]|].
    intros u; cbv beta. apply tr_ret. intros w Hw _. eapply EP_of_E; eassumption.
  - eapply tr_conseq; [| |apply IH]; [intros w [H _]; exact H|intros a w X; exact X].
Qed.

Lemma S_strv_concat a b : tr NB (strv_concat a b) (fun r w' => r = None -> EP w').
Proof.
  unfold strv_concat. cbv zeta.
  eapply tr_bind; [apply tr_nb; [auto|apply S_heap_alloc]|]. intros arr; cbv beta.
  destruct (Z.eqb_spec arr 0) as [->|Hnz].
  - apply tr_pre. intros w0 [_ [[_ He]|[Hlt _]]]; [|lia].
    unfold EP in He. set (e1 := pr_errno (curp w0)) in *.
    eapply tr_bind; [eapply tr_conseq; [| |apply (E_sys_free e1 0)]; [intros w ->; reflexivity|intros x w X; exact X]|].
    intros u; cbv beta. apply tr_ret. intros w Hw _. eapply EP_of_E; eassumption.
  - eapply tr_bind; [eapply tr_conseq; [| |apply S_dup_all]; [intros w [H _]; exact H|intros x w X; exact X]|].
    intros [l|]; cbv beta; [apply tr_ret; intros; discriminate|].
    apply tr_pre. intros w0 He. specialize (He eq_refl). unfold EP in He. set (e1 := pr_errno (curp w0)) in *.
    eapply tr_bind; [eapply tr_conseq; [| |apply (E_sys_free e1 arr)]; [intros w ->; reflexivity|intros x w X; exact X]|].
    intros u; cbv beta. apply tr_ret. intros w Hw _. eapply EP_of_E; eassumption.
Qed.

(* ---- descriptor calls: a negative result comes with a positive errno ---- *)
Lemma run_done c a s r o w : done c a s r o w = Ret r (w_with_trace (mkev c a s r o 0 w :: w_trace w) w).
Proof. reflexivity. Qed.
Lemma run_fail c a s e w :
  fail c a s e w = Ret (-1) (w_with_trace (mkev c a s (-1) [] 0 (upd_cur (pr_with_errno e) w) :: w_trace (upd_cur (pr_with_errno e) w)) (upd_cur (pr_with_errno e) w)).
Proof. reflexivity. Qed.

(* the generic shape: after the prelude either `fail` with a positive number or a non-negative result *)
Definition negEP (r : Z) (w' : world) : Prop := r < 0 -> EP w'.

Lemma S_sys_getfd fd : tr (fun _ => True) (sys_getfd fd) (fun r w' => 0 <= r \/ (r = -1 /\ EP w')).
Proof.
  intros w W _. pose proof (pc_sys_getfd fd w W) as Hpc.
  unfold sys_getfd in *. unfold bind at 1 in Hpc. unfold bind at 1.
  pose proof (prelude_spec w W) as Hp. destruct (prelude w) as [f w0|w0|w0|y w0]; auto.
  destruct Hp as (W0 & _).
  destruct f as [e|].
  - rewrite run_fail in *. split; [exact Hpc|]. right. split; [reflexivity|]. unfold EP. rewrite (E_after_seterr _ _ w0 W0). lia.
  - unfold bind at 1, gets in Hpc. unfold bind at 1, gets. cbv beta iota in *.
    destruct (cur_fds w0 !! fd) as [d|].
    + rewrite run_done in *. split; [exact Hpc|]. left. destruct (f_cloexec d); unfold FD_CLOEXEC; lia.
    + rewrite run_fail in *. split; [exact Hpc|]. right. split; [reflexivity|]. unfold EP. rewrite (E_after_seterr _ _ w0 W0). unfold EBADF. lia.
Qed.
Lemma S_sys_setfd fd v : tr (fun _ => True) (sys_setfd fd v) (fun r w' => r = 0 \/ (r = -1 /\ EP w')).
Proof.
  intros w W _. pose proof (pc_sys_setfd fd v w W) as Hpc.
  unfold sys_setfd in *. unfold bind at 1 in Hpc. unfold bind at 1.
  pose proof (prelude_spec w W) as Hp. destruct (prelude w) as [f w0|w0|w0|y w0]; auto.
  destruct Hp as (W0 & _).
  destruct f as [e|].
  - rewrite run_fail in *. split; [exact Hpc|]. right. split; [reflexivity|]. unfold EP. rewrite (E_after_seterr _ _ w0 W0). lia.
  - unfold bind at 1, gets in Hpc. unfold bind at 1, gets. cbv beta iota in *.
    destruct (cur_fds w0 !! fd) as [d|].
    + destruct ((set_cur_fds (<[fd:=fd_set_cloexec (has_bit v FD_CLOEXEC) d]> (cur_fds w0));> done CSetfd [fd; v] [] 0 []) w0) as [r w1|w1|w1|y w1] eqn:Er; auto.
      split; [exact Hpc|]. left. unfold bind, set_cur_fds, modify, done, log, bind, ret in Er. cbn in Er. congruence.
    + rewrite run_fail in *. split; [exact Hpc|]. right. split; [reflexivity|]. unfold EP. rewrite (E_after_seterr _ _ w0 W0). unfold EBADF. lia.
Qed.

Lemma S_handle_cloexec h en : tr (fun _ => True) (handle_cloexec h en) (fun r w' => r = 0 \/ r < 0).
Proof.
  unfold handle_cloexec.
  eapply tr_bind; [apply S_sys_getfd|]. intros r; cbv beta.
  destruct (Z.ltb_spec r 0).
  { apply tr_pre. intros w0 [Hge|[-> He]]; [lia|]. eapply tr_bind; [apply tr_get_errno|]. intros e; cbv beta.
    apply tr_ret. intros w [-> Hee]. right. unfold E, EP in *. lia. }
  cbv zeta. eapply tr_bind; [eapply tr_conseq; [| |apply S_sys_setfd]; [intros w X; exact I|intros a w X; exact X]|]. intros r2; cbv beta.
  destruct (Z.ltb_spec r2 0).
  { apply tr_pre. intros w0 [Hz|[-> He]]; [lia|]. eapply tr_bind; [apply tr_get_errno|]. intros e; cbv beta.
    apply tr_ret. intros w [-> Hee]. right. unfold E, EP in *. lia. }
  apply tr_ret. auto.
Qed.

Lemma S_sys_pipe : tr (fun _ => True) sys_pipe (fun rab w' => fst (fst rab) = 0 \/ (fst (fst rab) = -1 /\ EP w')).
Proof.
  intros w W _. pose proof (pc_sys_pipe w W) as Hpc.
  unfold sys_pipe in *. unfold bind at 1 in Hpc. unfold bind at 1.
  pose proof (prelude_spec w W) as Hp. destruct (prelude w) as [f w0|w0|w0|y w0]; auto.
  destruct Hp as (W0 & _).
  assert (Hfail : forall e, 0 < e ->
    match (fail CPipe [] [] e;> ret (-1, -1, -1)) w0 with Ret rab w' => fst (fst rab) = 0 \/ (fst (fst rab) = -1 /\ EP w') | _ => True end).
  { intros e He. rewrite run_fail_ret. right. split; [reflexivity|]. unfold EP. rewrite (E_after_seterr e _ w0 W0). exact He. }
  destruct f as [e|].
  - specialize (Hfail (Z.pos e) ltac:(lia)). destruct ((fail CPipe [] [] (Z.pos e);> ret (-1, -1, -1)) w0); auto.
  - unfold bind at 1, get in Hpc. unfold bind at 1, get. cbv beta iota zeta in *.
    destruct (fd_alloc (pr_fds (curp w0)) (pr_rlimit (curp w0))) as [a|].
    2:{ specialize (Hfail EMFILE ltac:(unfold EMFILE; lia)). destruct ((fail CPipe [] [] EMFILE;> ret (-1, -1, -1)) w0); auto. }
    destruct (fd_alloc _ (pr_rlimit (curp w0))) as [b|].
    2:{ specialize (Hfail EMFILE ltac:(unfold EMFILE; lia)). destruct ((fail CPipe [] [] EMFILE;> ret (-1, -1, -1)) w0); auto. }
    match goal with |- match ?m w0 with _ => _ end => destruct (m w0) as [[[r x] y] w1|w1|w1|y0 w1] eqn:Er; auto end.
    split; [exact Hpc|]. left.
    unfold bind, modify, set_cur_fds, done, log, ret in Er. cbn in Er. injection Er as <- _ _ _. reflexivity.
Qed.

Lemma S_pipe_init : tr (fun _ => True) pipe_init (fun rp w' => match snd rp with None => fst rp < 0 | Some _ => fst rp = 0 end).
Proof.
  unfold pipe_init.
  eapply tr_bind; [apply S_sys_pipe|]. intros [[r a] b]; cbv beta. cbn [fst].
  destruct (Z.ltb_spec r 0).
  { apply tr_pre. intros w0 [Hz|[-> He]]; [lia|].
    eapply tr_bind; [apply tr_get_errno|]. intros e; cbv beta.
    apply tr_pre. intros w1 [-> Hee]. assert (0 < e) by (unfold E, EP in *; lia).
    eapply tr_bind; [apply tr_of_pc, pc_pipe_destroy|]. intros u1; cbv beta.
    eapply tr_bind; [apply tr_of_pc, pc_pipe_destroy|]. intros u2; cbv beta.
    apply tr_ret. intros w _. cbn. lia. }
  eapply tr_bind; [eapply tr_conseq; [| |apply S_handle_cloexec]; [intros w X; exact I|intros x w X; exact X]|]. intros r1; cbv beta.
  destruct (Z.ltb_spec r1 0).
  { eapply tr_bind; [apply tr_of_pc, pc_pipe_destroy|]. intros u1; cbv beta.
    eapply tr_bind; [apply tr_of_pc, pc_pipe_destroy|]. intros u2; cbv beta. apply tr_ret. intros w _. cbn. exact H0. }
  eapply tr_bind; [eapply tr_conseq; [| |apply S_handle_cloexec]; [intros w X; exact I|intros x w X; exact X]|]. intros r2; cbv beta.
  destruct (Z.ltb_spec r2 0).
  { eapply tr_bind; [apply tr_of_pc, pc_pipe_destroy|]. intros u1; cbv beta.
    eapply tr_bind; [apply tr_of_pc, pc_pipe_destroy|]. intros u2; cbv beta. apply tr_ret. intros w _. cbn. exact H1. }
  apply tr_pre. intros w0 Hr2.
  eapply tr_bind; [apply tr_of_pc, pc_pipe_destroy|]. intros u1; cbv beta.
  eapply tr_bind; [apply tr_of_pc, pc_pipe_destroy|]. intros u2; cbv beta.
  apply tr_ret. intros w _. cbn. destruct Hr2; lia.
Qed.

Lemma S_sigfillset : tr (fun _ => True) sys_sigfillset (fun r w' => r = 0 \/ (r = -1 /\ EP w')).
Proof.
  intros w W _. pose proof (pc_sys_sigfillset w W) as Hpc.
  unfold sys_sigfillset in *. unfold bind at 1 in Hpc. unfold bind at 1.
  pose proof (prelude_spec w W) as Hp. destruct (prelude w) as [f w0|w0|w0|y w0]; auto.
  destruct Hp as (W0 & _). destruct f as [e|].
  - rewrite run_fail in *. split; [exact Hpc|]. right. split; [reflexivity|]. unfold EP. rewrite (E_after_seterr _ _ w0 W0). lia.
  - rewrite run_done in *. split; [exact Hpc|]. left. reflexivity.
Qed.

Lemma tr_run {A} (m : MW A) (P : world -> Prop) Q w a w' : tr P m Q -> wf w -> P w -> m w = Ret a w' -> pcpost w w' /\ Q a w'.
Proof. intros H W Hp E0. specialize (H w W Hp). rewrite E0 in H. exact H. Qed.

Lemma FK_pq base pid w w' : pq w w' -> FK base pid w -> FK base pid w'.
Proof.
  intros (_ & C & _ & (l & T)) (l1 & ev & T1 & Hin & Hc & Hr & Hp). exists (l ++ l1), ev.
  split; [rewrite T, T1, app_assoc; reflexivity|]. split; [apply in_or_app; right; exact Hin|]. rewrite C. auto.
Qed.

(* the reap of a child that reported its own failure, retried while interrupted: it ends with the
   child reaped or with a failure other than an interruption *)
Lemma waitpid_retry_spec pid fuel : forall w r status w', wf w -> 0 < pid ->
  waitpid_retry fuel pid w = Ret (r, status) w' ->
  wf w' /\ w_cur w' = w_cur w /\ ((r = -1 /\ 0 < pr_errno (curp w')) \/ (r = pid /\ True)).
Proof.
  induction fuel as [|f IH]; intros w r status w' W Hp E; cbn [waitpid_retry] in E; [discriminate|].
  apply bind_inv in E as ([r1 st1] & w1 & E1 & E). cbv beta iota in E.
  destruct (sys_waitpid_spec _ _ _ _ _ W Hp E1) as (W1 & C1 & [[-> He]|(-> & _)]).
  - change (-1 <? 0) with true in E. cbv iota in E.
    apply bind_inv in E as (e & w1' & Eg & E). apply gets_inv in Eg as [-> ->].
    destruct (pr_errno (curp w1) =? EINTR).
    + destruct (IH _ _ _ _ W1 Hp E) as (W' & C' & H'). split; [exact W'|]. split; [congruence|exact H'].
    + apply ret_inv in E as [E ->]. injection E as -> ->. split; [exact W1|]. split; [exact C1|]. left. auto.
  - destruct (Z.ltb_spec pid 0); [lia|]. apply ret_inv in E as [E ->]. injection E as -> ->.
    split; [exact W1|]. split; [exact C1|]. right. auto.
Qed.
Lemma waitpid_child_spec pid w r status w' : wf w -> 0 < pid ->
  waitpid_child pid w = Ret (r, status) w' ->
  wf w' /\ w_cur w' = w_cur w /\ ((r = -1 /\ 0 < pr_errno (curp w')) \/ (r = pid /\ True)).
Proof.
  intros W Hp E. unfold waitpid_child in E. apply bind_inv in E as (nf & w0 & Eg & E). apply gets_inv in Eg as [-> ->].
  exact (waitpid_retry_spec _ _ _ _ _ _ W Hp E).
Qed.

(* process_fork: a negative error, or the positive pid returned by the fork call it made *)
Theorem process_fork_result except ck w r w' :
  wf w -> 0 <= w_cur w -> kp (w_cur w) ck ->
  process_fork except ck w = Ret r w' ->
  r < 0 \/ (0 < r /\ FK (w_trace w) r w').
Proof.
  intros W Hpos Hk E0. unfold process_fork in E0.
  apply bind_inv in E0 as (r0 & w1 & E1 & E0).
  destruct (tr_run _ _ _ _ _ _ S_sigfillset W I E1) as [P1 H1].
  destruct (Z.ltb_spec r0 0).
  { apply bind_inv in E0 as (e & w1' & Eg & E0). apply gets_inv in Eg as [-> ->]. apply ret_inv in E0 as [-> ->].
    left. destruct H1 as [->|[_ He]]; [lia|]. unfold EP in He. lia. }
  apply bind_inv in E0 as ([r1 old] & w2 & E2 & E0). cbv beta iota in E0.
  destruct (signal_mask_set _ _ _ _ _ ltac:(apply P1) E2) as [Q2 H2].
  destruct (Z.ltb_spec r1 0). { apply ret_inv in E0 as [-> ->]. left; assumption. }
  apply bind_inv in E0 as ([r2 pp] & w3 & E3 & E0). cbv beta iota in E0.
  destruct (tr_run _ _ _ _ _ _ S_pipe_init ltac:(apply Q2) I E3) as [P3 H3]. cbn [fst snd] in H3.
  destruct pp as [[prd pwr]|].
  2:{ apply bind_inv in E0 as (x & w4 & E4 & E0). apply ret_inv in E0 as [-> ->]. left; assumption. }
  apply bind_inv in E0 as (r3 & w4 & E4 & E0).
  assert (C3 : w_cur w3 = w_cur w).
  { destruct P3 as (_ & C3 & _). destruct Q2 as (_ & C2 & _). destruct P1 as (_ & C1 & _). congruence. }
  assert (T3 : exists l, w_trace w3 = l ++ w_trace w).
  { destruct P3 as (_ & _ & _ & (l3 & T3) & _). destruct Q2 as (_ & _ & _ & (l2 & T2)). destruct P1 as (_ & _ & _ & (l1 & T1) & _).
    exists (l3 ++ l2 ++ l1). rewrite T3, T2, T1, !app_assoc. reflexivity. }
  assert (Hk3 : kp (w_cur w3) (fork_child_part prd pwr except ck)) by (rewrite C3; apply kp_fork_child_part, Hk).
  destruct (sys_fork_spec _ _ _ _ ltac:(apply P3) ltac:(rewrite C3; exact Hpos) Hk3 E4) as [P4 H4].
  destruct (Z.ltb_spec r3 0).
  { apply bind_inv in E0 as (e & w4' & Eg & E0). apply gets_inv in Eg as [-> ->]. cbv zeta in E0.
    apply bind_inv in E0 as (x5 & w5 & E5 & E0). apply bind_inv in E0 as (x6 & w6 & E6 & E0).
    apply bind_inv in E0 as (x7 & w7 & E7 & E0). apply ret_inv in E0 as [-> ->].
    left. destruct H4 as [[_ He]|[Hgt _]]; [lia|lia]. }
  destruct H4 as [[-> _]|[Hgt (ev & l4 & T4 & Hc4 & Hr4 & Hp4)]]; [lia|].
  cbv zeta in E0.
  assert (F4 : FK (w_trace w) r3 w4).
  { destruct T3 as [l3 T3]. exists (ev :: l4 ++ l3), ev. split; [rewrite T4, T3; cbn; rewrite app_assoc; reflexivity|].
    split; [left; reflexivity|]. split; [exact Hc4|]. split; [exact Hr4|]. rewrite Hp4. destruct P4 as (_ & C4 & _). congruence. }
  apply bind_inv in E0 as ([r5 o5] & w5 & E5 & E0).
  destruct (signal_mask_set _ _ _ _ _ ltac:(apply P4) E5) as [Q5 _].
  apply bind_inv in E0 as (x6 & w6 & E6 & E0). pose proof (pc_run _ _ _ _ (pc_pipe_destroy _) ltac:(apply Q5) E6) as P6.
  apply bind_inv in E0 as ([q rs] & w7 & E7 & E0). pose proof (pc_run _ _ _ _ (pc_read_errpipe _) ltac:(apply P6) E7) as P7.
  cbv beta iota zeta in E0.
  apply bind_inv in E0 as (r8 & w8 & E8 & E0).
  apply bind_inv in E0 as (x9 & w9 & E9 & E0). apply ret_inv in E0 as [-> ->].
  destruct (Z.ltb_spec 0 (if q <? 0 then 0 else decode_int (runs_bytes rs))) as [Hce|Hce].
  - (* the child reported an error: the result is negative *)
    left. apply bind_inv in E8 as ([rw stw] & w8' & Ew & E8).
    destruct (waitpid_child_spec _ _ _ _ _ ltac:(apply P7) Hgt Ew) as (W8 & _ & [[-> He]|(-> & _)]).
    + change (-1 <? 0) with true in E8. cbv iota in E8.
      apply bind_inv in E8 as (e & w8'' & Eg & E8). apply gets_inv in Eg as [-> ->]. apply ret_inv in E8 as [-> _].
      destruct (Z.ltb_spec (- pr_errno (curp w8')) 0); lia.
    + destruct (Z.ltb_spec r3 0); [lia|]. apply ret_inv in E8 as [-> _].
      destruct (Z.ltb_spec (- (if q <? 0 then 0 else decode_int (runs_bytes rs))) 0); lia.
  - apply ret_inv in E8 as [-> ->]. destruct (Z.ltb_spec r3 0); [lia|]. right. split; [exact Hgt|].
    pose proof (pc_run _ _ _ _ (pc_pipe_destroy _) ltac:(apply P7) E9) as P9.
    eapply FK_mono; [exact P9|]. eapply FK_mono; [exact P7|]. eapply FK_mono; [exact P6|]. eapply FK_pq; [exact Q5|exact F4].
Qed.

(* the frame part of process_fork without any assumption on the mask *)
Lemma process_fork_pq except ck w r w' :
  wf w -> 0 <= w_cur w -> kp (w_cur w) ck -> process_fork except ck w = Ret r w' -> pq w w'.
Proof.
  intros W Hpos Hk E0. unfold process_fork in E0.
  apply bind_inv in E0 as (r0 & w1 & E1 & E0).
  pose proof (pc_run _ _ _ _ pc_sys_sigfillset W E1) as P1.
  destruct (r0 <? 0).
  { apply bind_inv in E0 as (e & w1' & Eg & E0). apply gets_inv in Eg as [-> ->]. apply ret_inv in E0 as [-> ->].
    apply pq_of_pcpost, P1. }
  apply bind_inv in E0 as ([r1 old] & w2 & E2 & E0). cbv beta iota in E0.
  destruct (signal_mask_set _ _ _ _ _ ltac:(apply P1) E2) as [Q2 _].
  assert (Q02 : pq w w2) by (eapply pq_trans; [apply pq_of_pcpost, P1|exact Q2]).
  destruct (r1 <? 0). { apply ret_inv in E0 as [-> ->]. exact Q02. }
  apply bind_inv in E0 as ([r2 pp] & w3 & E3 & E0). cbv beta iota in E0.
  pose proof (pc_run _ _ _ _ pc_pipe_init ltac:(apply Q2) E3) as P3.
  assert (Q03 : pq w w3) by (eapply pq_pc; eassumption).
  assert (C3 : w_cur w3 = w_cur w) by apply Q03.
  destruct pp as [[prd pwr]|].
  2:{ apply bind_inv in E0 as ([r3 o3] & w4 & E4 & E0). apply ret_inv in E0 as [-> ->].
      destruct (signal_mask_set _ _ _ _ _ ltac:(apply P3) E4) as [Q4 _]. eapply pq_trans; eassumption. }
  apply bind_inv in E0 as (r3 & w4 & E4 & E0).
  assert (Hk3 : kp (w_cur w3) (fork_child_part prd pwr except ck)) by (rewrite C3; apply kp_fork_child_part, Hk).
  destruct (sys_fork_spec _ _ _ _ ltac:(apply P3) ltac:(rewrite C3; exact Hpos) Hk3 E4) as [P4 _].
  assert (Q04 : pq w w4) by (eapply pq_pc; eassumption).
  destruct (r3 <? 0).
  { apply bind_inv in E0 as (e & w4' & Eg & E0). apply gets_inv in Eg as [-> ->]. cbv zeta in E0.
    apply bind_inv in E0 as ([r5 o5] & w5 & E5 & E0).
    destruct (signal_mask_set _ _ _ _ _ ltac:(apply P4) E5) as [Q5 _].
    apply bind_inv in E0 as (x6 & w6 & E6 & E0). pose proof (pc_run _ _ _ _ (pc_pipe_destroy _) ltac:(apply Q5) E6) as P6.
    apply bind_inv in E0 as (x7 & w7 & E7 & E0). pose proof (pc_run _ _ _ _ (pc_pipe_destroy _) ltac:(apply P6) E7) as P7.
    apply ret_inv in E0 as [-> ->].
    eapply pq_pc; [eapply pq_pc; [eapply pq_trans; eassumption|exact P6]|exact P7]. }
  cbv zeta in E0.
  apply bind_inv in E0 as ([r5 o5] & w5 & E5 & E0).
  destruct (signal_mask_set _ _ _ _ _ ltac:(apply P4) E5) as [Q5 _].
  apply bind_inv in E0 as (x6 & w6 & E6 & E0). pose proof (pc_run _ _ _ _ (pc_pipe_destroy _) ltac:(apply Q5) E6) as P6.
  apply bind_inv in E0 as ([q rs] & w7 & E7 & E0). pose proof (pc_run _ _ _ _ (pc_read_errpipe _) ltac:(apply P6) E7) as P7.
  cbv beta iota zeta in E0.
  apply bind_inv in E0 as (r8 & w8 & E8 & E0).
  assert (P8 : pcpost w7 w8).
  { destruct (0 <? (if q <? 0 then 0 else decode_int (runs_bytes rs))).
    - apply bind_inv in E8 as ([rw stw] & w8' & Ew & E8).
      pose proof (pc_run _ _ _ _ (pc_waitpid_child _) ltac:(apply P7) Ew) as Pw.
      destruct (rw <? 0).
      + apply bind_inv in E8 as (e & w8'' & Eg & E8). apply gets_inv in Eg as [-> ->]. apply ret_inv in E8 as [_ ->]. exact Pw.
      + apply ret_inv in E8 as [_ ->]. exact Pw.
    - apply ret_inv in E8 as [_ ->]. apply pcpost_refl, P7. }
  apply bind_inv in E0 as (x9 & w9 & E9 & E0). pose proof (pc_run _ _ _ _ (pc_pipe_destroy _) ltac:(apply P8) E9) as P9.
  apply ret_inv in E0 as [-> ->].
  eapply pq_pc; [|exact P9]. eapply pq_pc; [|exact P8]. eapply pq_pc; [|exact P7]. eapply pq_pc; [|exact P6].
  eapply pq_trans; eassumption.
Qed.

Lemma process_start_pq pr argv o ck w r pid w' :
  wf w -> 0 <= w_cur w -> kp (w_cur w) ck ->
  process_start pr argv o ck w = Ret (r, pid) w' -> pq w w'.
Proof.
  intros W Hpos Hk E. unfold process_start in E. cbv zeta in E.
  assert (Hdone : forall w1, pcpost w w1 -> pq w w1) by (intros w1 P; apply pq_of_pcpost, P).
  apply bind_inv in E as ([r1 pp] & w1 & E1 & E). cbv beta iota in E.
  pose proof (pc_run _ _ _ _ pc_pipe_init W E1) as P1.
  destruct pp as [[prd pwr]|].
  2:{ apply Hdone. eapply pcpost_trans; [exact P1|]. exact (pc_run _ _ _ _ (pc_finish _ _ _ _ _) ltac:(apply P1) E). }
  apply bind_inv in E as (pg & w2 & E2 & E).
  assert (P2 : pcpost w1 w2).
  { destruct argv as [[|a0 av]|]; try (apply ret_inv in E2 as [_ ->]; apply pcpost_refl, P1).
    destruct (isSome (po_wd o) && path_is_relative a0).
    - exact (pc_run _ _ _ _ (pc_path_prepend_cwd _) ltac:(apply P1) E2).
    - apply bind_inv in E2 as (b & w2' & Eb & E2). apply ret_inv in E2 as [_ ->].
      exact (pc_run _ _ _ _ (pc_heap_alloc _ _ _) ltac:(apply P1) Eb). }
  assert (P02 : pcpost w w2) by (eapply pcpost_trans; eassumption).
  match type of E with (if ?b then _ else _) _ = _ => destruct b end.
  { apply bind_inv in E as (e & w2' & Eg & E). apply gets_inv in Eg as [-> ->].
    apply Hdone. eapply pcpost_trans; [exact P02|]. exact (pc_run _ _ _ _ (pc_finish _ _ _ _ _) ltac:(apply P02) E). }
  apply bind_inv in E as (penv & w2' & Eg & E). apply gets_inv in Eg as [-> ->].
  apply bind_inv in E as (env & w3 & E3 & E).
  pose proof (pc_run _ _ _ _ (pc_strv_concat _ _) ltac:(apply P02) E3) as P3.
  assert (P03 : pcpost w w3) by (eapply pcpost_trans; eassumption).
  destruct env as [env|].
  2:{ apply bind_inv in E as (e & w3' & Eg & E). apply gets_inv in Eg as [-> ->].
      apply Hdone. eapply pcpost_trans; [exact P03|]. exact (pc_run _ _ _ _ (pc_finish _ _ _ _ _) ltac:(apply P03) E). }
  apply bind_inv in E as (r4 & w4 & E4 & E).
  assert (C3 : w_cur w3 = w_cur w) by apply P03.
  destruct P03 as (W3 & _ & S3 & (l3 & T3) & B3).
  assert (Hk3 : kp (w_cur w3) (start_child_part prd pwr argv pg (Some env) o ck)) by (rewrite C3; apply kp_start_child_part, Hk).
  pose proof (process_fork_pq _ _ _ _ _ W3 ltac:(rewrite C3; exact Hpos) Hk3 E4) as Q4.
  assert (Q04 : pq w w4).
  { eapply pq_trans; [|exact Q4]. apply pq_of_pcpost. split; [exact W3|]. split; [exact C3|]. split; [exact S3|]. split; [exists l3; exact T3|exact B3]. }
  assert (Hrest : forall w5, pcpost w4 w5 -> pq w w5) by (intros w5 P5; eapply pq_pc; eassumption).
  destruct (r4 <? 0).
  { apply Hrest. exact (pc_run _ _ _ _ (pc_finish _ _ _ _ _) ltac:(apply Q4) E). }
  apply bind_inv in E as (x5 & w5 & E5 & E). pose proof (pc_run _ _ _ _ (pc_pipe_destroy _) ltac:(apply Q4) E5) as P5.
  apply bind_inv in E as ([q rs] & w6 & E6 & E). pose proof (pc_run _ _ _ _ (pc_read_errpipe _) ltac:(apply P5) E6) as P6.
  cbv beta iota zeta in E.
  assert (P46 : pcpost w4 w6) by (eapply pcpost_trans; eassumption).
  destruct (0 <? (if q <? 0 then 0 else decode_int (runs_bytes rs))).
  - apply bind_inv in E as ([rw stw] & w7 & E7 & E). pose proof (pc_run _ _ _ _ (pc_waitpid_child _) ltac:(apply P6) E7) as P7.
    cbv beta iota in E.
    apply bind_inv in E as (r8 & w8 & E8 & E).
    assert (P8 : pcpost w7 w8).
    { destruct (rw <? 0).
      - apply bind_inv in E8 as (e & w8' & Eg & E8). apply gets_inv in Eg as [-> ->]. apply ret_inv in E8 as [_ ->]. apply pcpost_refl, P7.
      - apply ret_inv in E8 as [_ ->]. apply pcpost_refl, P7. }
    apply Hrest. eapply pcpost_trans; [exact P46|]. eapply pcpost_trans; [exact P7|]. eapply pcpost_trans; [exact P8|].
    exact (pc_run _ _ _ _ (pc_finish _ _ _ _ _) ltac:(apply P8) E).
  - apply Hrest. eapply pcpost_trans; [exact P46|]. exact (pc_run _ _ _ _ (pc_finish _ _ _ _ _) ltac:(apply P6) E).
Qed.

Lemma finish_val {A B} (m : MW A) (x : B) w a w' : (m;> ret x) w = Ret a w' -> a = x.
Proof. intros E0. apply bind_inv in E0 as (u & w1 & _ & E0). apply ret_inv in E0 as [-> _]. reflexivity. Qed.

(* THE RESULT OF process_start, every fault plan: a negative error with the handle untouched, or 1
   with the positive pid returned by the fork call of this very start *)
Theorem process_start_result pr argv o ck w r pid w' :
  wf w -> 0 <= w_cur w -> NB w -> kp (w_cur w) ck -> argv <> Some [] ->
  process_start pr argv o ck w = Ret (r, pid) w' ->
  (r < 0 /\ pid = pr) \/ (r = 1 /\ 0 < pid /\ FK (w_trace w) pid w').
Proof.
  intros W Hpos Hnb Hk Hav E0. unfold process_start in E0. cbv zeta in E0.
  (* the shape of every exit through the common block *)
  assert (Hfin : forall (v : Z * Z) prd pwr blk env w1,
            (pipe_destroy prd;> pipe_destroy pwr;> sys_free blk;> strv_free env;> ret v) w1 = Ret (r, pid) w' -> (r, pid) = v).
  { intros v prd pwr blk env w1 Ef.
    apply bind_inv in Ef as (u1 & v1 & _ & Ef). apply bind_inv in Ef as (u2 & v2 & _ & Ef).
    apply bind_inv in Ef as (u3 & v3 & _ & Ef). apply bind_inv in Ef as (u4 & v4 & _ & Ef).
    apply ret_inv in Ef as [Ef _]. exact Ef. }
  assert (Hneg : forall r0 prd pwr blk env w1, r0 < 0 ->
            (pipe_destroy prd;> pipe_destroy pwr;> sys_free blk;> strv_free env;> ret (if r0 <? 0 then r0 else 1, pr)) w1 = Ret (r, pid) w' ->
            (r < 0 /\ pid = pr) \/ (r = 1 /\ 0 < pid /\ FK (w_trace w) pid w')).
  { intros r0 prd pwr blk env w1 Hr0 Ef. apply Hfin in Ef. injection Ef as -> ->.
    left. destruct (Z.ltb_spec r0 0); [auto|lia]. }
  apply bind_inv in E0 as ([r1 pp] & w1 & E1 & E0). cbv beta iota in E0.
  destruct (tr_run _ _ _ _ _ _ S_pipe_init W I E1) as [P1 H1]. cbn [fst snd] in H1.
  destruct pp as [[prd pwr]|]; [|eapply Hneg; [exact H1|exact E0]].
  apply bind_inv in E0 as (pg & w2 & E2 & E0).
  assert (Nb1 : NB w1) by (eapply NB_mono; eassumption).
  assert (P2 : pcpost w1 w2 /\ (argv <> None -> pg = None -> EP w2)).
  { destruct argv as [[|a0 av]|].
    - contradiction.
    - destruct (isSome (po_wd o) && path_is_relative a0).
      + destruct (tr_run _ _ _ _ _ _ (S_path_prepend_cwd a0) ltac:(apply P1) Nb1 E2) as [P2 H2]. auto.
      + apply bind_inv in E2 as (b & w2' & Eb & E2). apply ret_inv in E2 as [-> ->].
        destruct (tr_run _ _ _ _ _ _ (S_heap_alloc _ _ _) ltac:(apply P1) Nb1 Eb) as [P2 H2]. split; [exact P2|].
        intros _ Hn. destruct H2 as [[_ He]|[Hlt _]]; [exact He|]. destruct (Z.eqb_spec b 0); [lia|discriminate].
    - apply ret_inv in E2 as [-> ->]. split; [apply pcpost_refl, P1|]. intros X; contradiction. }
  destruct P2 as [P2 H2].
  assert (P02 : pcpost w w2) by (eapply pcpost_trans; eassumption).
  match type of E0 with (if ?b then _ else _) _ = _ => destruct b eqn:Epf end.
  { apply bind_inv in E0 as (e & w2' & Eg & E0). apply gets_inv in Eg as [-> ->].
    eapply Hneg; [|exact E0].
    assert (EP w2). { destruct argv as [av|]; [|discriminate]. destruct pg; [discriminate|]. apply H2; [discriminate|reflexivity]. }
    unfold EP in *. lia. }
  apply bind_inv in E0 as (penv & w2' & Eg & E0). apply gets_inv in Eg as [-> ->].
  apply bind_inv in E0 as (env & w3 & E3 & E0).
  destruct (tr_run _ _ _ _ _ _ (S_strv_concat _ _) ltac:(apply P02) ltac:(eapply NB_mono; eassumption) E3) as [P3 H3].
  assert (P03 : pcpost w w3) by (eapply pcpost_trans; eassumption).
  destruct env as [env|].
  2:{ apply bind_inv in E0 as (e & w3' & Eg & E0). apply gets_inv in Eg as [-> ->].
      eapply Hneg; [|exact E0]. specialize (H3 eq_refl). unfold EP in H3. lia. }
  apply bind_inv in E0 as (r4 & w4 & E4 & E0).
  assert (C3 : w_cur w3 = w_cur w) by apply P03.
  destruct P03 as (W3 & _ & _ & (l3 & T3) & _).
  assert (Hk3 : kp (w_cur w3) (start_child_part prd pwr argv pg (Some env) o ck)) by (rewrite C3; apply kp_start_child_part, Hk).
  pose proof (process_fork_result _ _ _ _ _ W3 ltac:(rewrite C3; exact Hpos) Hk3 E4) as H4.
  pose proof (process_fork_pq _ _ _ _ _ W3 ltac:(rewrite C3; exact Hpos) Hk3 E4) as Q4.
  destruct (r4 <? 0) eqn:E4lt.
  { apply Hfin in E0. injection E0 as -> ->. left. split; [apply Z.ltb_lt; exact E4lt|reflexivity]. }
  apply Z.ltb_ge in E4lt.
  destruct H4 as [Hlt|[Hgt F4]]; [lia|].
  assert (F4' : FK (w_trace w) r4 w4).
  { destruct F4 as (l & ev & T4 & X). exists (l ++ l3), ev. split; [rewrite T4, T3, app_assoc; reflexivity|].
    destruct X as (Hin & X). split; [apply in_or_app; left; exact Hin|exact X]. }
  apply bind_inv in E0 as (x5 & w5 & E5 & E0). pose proof (pc_run _ _ _ _ (pc_pipe_destroy _) ltac:(apply Q4) E5) as P5.
  apply bind_inv in E0 as ([q rs] & w6 & E6 & E0). pose proof (pc_run _ _ _ _ (pc_read_errpipe _) ltac:(apply P5) E6) as P6.
  cbv beta iota zeta in E0.
  destruct (Z.ltb_spec 0 (if q <? 0 then 0 else decode_int (runs_bytes rs))) as [Hce|Hce].
  - (* the child reported an error *)
    apply bind_inv in E0 as ([rw stw] & w7 & E7 & E0). cbv beta iota in E0.
    destruct (waitpid_child_spec _ _ _ _ _ ltac:(apply P6) Hgt E7) as (W7 & _ & Hw).
    apply bind_inv in E0 as (r8 & w8 & E8 & E0).
    assert (Hr8 : r8 < 0).
    { destruct Hw as [[-> He]|(-> & _)].
      - change (-1 <? 0) with true in E8. cbv iota in E8.
        apply bind_inv in E8 as (e & w8' & Eg & E8). apply gets_inv in Eg as [-> ->]. apply ret_inv in E8 as [-> _]. lia.
      - destruct (Z.ltb_spec r4 0); [lia|]. apply ret_inv in E8 as [-> _]. lia. }
    eapply Hneg; [exact Hr8|exact E0].
  - pose proof (pc_run _ _ _ _ (pc_finish _ _ _ _ _) ltac:(apply P6) E0) as P7.
    apply Hfin in E0. injection E0 as -> ->. right. split; [reflexivity|]. split; [exact Hgt|].
    eapply FK_mono; [exact P7|]. eapply FK_mono; [exact P6|]. eapply FK_mono; [exact P5|exact F4'].
Qed.

Lemma parse_options_empty_argv o : parse_options o ArgvEmpty = None.
Proof.
  unfold parse_options.
  destruct (parse_redirect (o_in o) _ _ _ _ _); [|reflexivity].
  destruct (parse_redirect (o_out o) _ _ _ _ _); [|reflexivity].
  destruct (parse_redirect (o_err o) _ _ _ _ _); [|reflexivity].
  destruct (o_input_data o && _); [reflexivity|]. destruct ((0 <? o_input_size o) && _); [reflexivity|].
  destruct (o_fork o); reflexivity.
Qed.

(* ---- the exit block of reproc_start: result and handle state ---- *)
Lemma start_finish_result p r o cin cout cerr cexit w r' p' w' :
  start_finish p r o cin cout cerr cexit w = Ret (r', p') w' ->
  r' = r /\ (r < 0 -> h_handle p' = PROCESS_INVALID /\ h_status p' = h_status p)
         /\ (0 < r -> h_handle p' = h_handle p /\ h_status p' = STATUS_IN_PROGRESS).
Proof.
  intros E0. unfold start_finish in E0.
  apply bind_inv in E0 as (u1 & w1 & _ & E0). apply bind_inv in E0 as (co & w2 & _ & E0). apply bind_inv in E0 as (ce & w3 & _ & E0).
  apply bind_inv in E0 as (u4 & w4 & _ & E0).
  destruct (Z.ltb_spec r 0).
  - apply bind_inv in E0 as (i1 & v1 & _ & E0). apply bind_inv in E0 as (i2 & v2 & _ & E0).
    apply bind_inv in E0 as (i3 & v3 & _ & E0). apply bind_inv in E0 as (i4 & v4 & _ & E0).
    apply ret_inv in E0 as [E0 _]. injection E0 as -> ->. split; [reflexivity|]. split; [intros _; split; reflexivity|lia].
  - destruct (Z.eqb_spec r 0).
    + apply ret_inv in E0 as [E0 _]. injection E0 as -> ->. split; [reflexivity|]. split; lia.
    + apply ret_inv in E0 as [E0 _]. injection E0 as -> ->. split; [reflexivity|]. split; [lia|]. intros _. split; reflexivity.
Qed.

(* THE RESULT OF reproc_start in the caller, every fault plan: a negative error with the life-cycle
   marker unchanged (and, unless the call was rejected outright, no process handle), or 1 with a
   running handle whose pid is positive and is the one the fork call of this start returned *)
Theorem reproc_start_result p argv o0 src ck w r p' w' :
  wf w -> 0 <= w_cur w -> NB w -> (forall q, kp (w_cur w) (ck q)) ->
  reproc_start p argv o0 src ck w = Ret (r, p') w' ->
  (r < 0 /\ h_status p' = h_status p) \/
  (r = 1 /\ 0 < h_handle p' /\ FK (w_trace w) (h_handle p') w' /\ h_status p' = STATUS_IN_PROGRESS).
Proof.
  intros W Hpos Hnb Hk E0. unfold reproc_start in E0.
  assert (Hfail : forall pp r0 o cin cout cerr cexit w1, r0 < 0 -> h_status pp = h_status p ->
            start_finish pp r0 o cin cout cerr cexit w1 = Ret (r, p') w' ->
            (r < 0 /\ h_status p' = h_status p) \/
            (r = 1 /\ 0 < h_handle p' /\ FK (w_trace w) (h_handle p') w' /\ h_status p' = STATUS_IN_PROGRESS)).
  { intros pp r0 o cin cout cerr cexit w1 Hr0 Hs Ef. apply start_finish_result in Ef as (-> & Hn & _).
    left. split; [exact Hr0|]. destruct (Hn Hr0) as [_ ->]. exact Hs. }
  destruct (negb (h_status p =? STATUS_NOT_STARTED)).
  { apply ret_inv in E0 as [E0 _]. injection E0 as -> ->. left. split; [unfold REPROC_EINVAL; lia|reflexivity]. }
  destruct (parse_options o0 (argv_form_of argv)) as [o|] eqn:Epo.
  2:{ refine (Hfail _ _ _ _ _ _ _ _ _ _ E0); [unfold REPROC_EINVAL; lia|reflexivity]. }
  apply bind_inv in E0 as ([[[r1 pin] cin] rdi] & w1 & E1 & E0). cbv beta iota zeta in E0.
  pose proof (pc_run _ _ _ _ (pc_redirect_init _ _ _ _ _ _) W E1) as P1.
  destruct (Z.ltb_spec r1 0). { refine (Hfail _ _ _ _ _ _ _ _ _ _ E0); [assumption|reflexivity]. }
  apply bind_inv in E0 as ([[[r2 pout] cout] rdo] & w2 & E2 & E0). cbv beta iota zeta in E0.
  pose proof (pcpost_trans _ _ _ P1 (pc_run _ _ _ _ (pc_redirect_init _ _ _ _ _ _) ltac:(apply P1) E2)) as P2.
  destruct (Z.ltb_spec r2 0). { refine (Hfail _ _ _ _ _ _ _ _ _ _ E0); [assumption|reflexivity]. }
  apply bind_inv in E0 as ([[[r3 perr] cerr] rde] & w3 & E3 & E0). cbv beta iota zeta in E0.
  pose proof (pcpost_trans _ _ _ P2 (pc_run _ _ _ _ (pc_redirect_init _ _ _ _ _ _) ltac:(apply P2) E3)) as P3.
  destruct (Z.ltb_spec r3 0). { refine (Hfail _ _ _ _ _ _ _ _ _ _ E0); [assumption|reflexivity]. }
  apply bind_inv in E0 as ([r4 pp] & w4 & E4 & E0). cbv beta iota zeta in E0.
  destruct (tr_run _ _ _ _ _ _ S_pipe_init ltac:(apply P3) I E4) as [P4' H4]. cbn [fst snd] in H4.
  pose proof (pcpost_trans _ _ _ P3 P4') as P4.
  destruct pp as [[pexit cexit]|]; [|refine (Hfail _ _ _ _ _ _ _ _ _ _ E0); [exact H4|reflexivity]].
  apply bind_inv in E0 as ([r5 pin5] & w5 & E5 & E0). cbv beta iota zeta in E0.
  pose proof (pcpost_trans _ _ _ P4 (pc_run _ _ _ _ (pc_setup_input _ _ _ _) ltac:(apply P4) E5)) as P5.
  destruct (Z.ltb_spec r5 0). { refine (Hfail _ _ _ _ _ _ _ _ _ _ E0); [assumption|reflexivity]. }
  apply bind_inv in E0 as ([r6 h6] & w6 & E6 & E0). cbv beta iota zeta in E0.
  assert (C5 : w_cur w5 = w_cur w) by apply P5.
  pose proof P5 as (W5 & _ & _ & (l5 & T5) & _).
  match type of E6 with process_start _ _ _ ?k _ = _ => assert (Hk5 : kp (w_cur w5) k) end.
  { rewrite C5. apply kp_bind; [apply kp_start_finish|]. intros [x pc0]. apply Hk. }
  assert (Hav : argv <> Some []).
  { intros ->. change (argv_form_of (Some [])) with ArgvEmpty in Epo. rewrite parse_options_empty_argv in Epo. discriminate. }
  destruct (process_start_result _ _ _ _ _ _ _ _ W5 ltac:(rewrite C5; exact Hpos) ltac:(eapply NB_mono; eassumption) Hk5 Hav E6)
    as [[Hr6 ->]|(-> & Hh6 & F6)].
  - destruct (Z.ltb_spec r6 0); [|lia]. refine (Hfail _ _ _ _ _ _ _ _ _ _ E0); [exact Hr6|reflexivity].
  - change (1 <? 0) with false in E0. cbv iota in E0.
    apply bind_inv in E0 as (dl & w7 & E7 & E0).
    pose proof (process_start_pq _ _ _ _ _ _ _ _ W5 ltac:(rewrite C5; exact Hpos) Hk5 E6) as Q6.
    assert (P7 : pcpost w6 w7).
    { destruct (negb (o_deadline _ =? REPROC_INFINITE)).
      - apply bind_inv in E7 as (n & w7' & En & E7). apply ret_inv in E7 as [_ ->].
        exact (pc_run _ _ _ _ pc_now ltac:(apply Q6) En).
      - apply ret_inv in E7 as [_ ->]. apply pcpost_refl, Q6. }
    pose proof (pc_run _ _ _ _ (pc_start_finish _ _ _ _ _ _ _) ltac:(apply P7) E0) as P8.
    apply start_finish_result in E0 as (-> & _ & Hp). destruct (Hp ltac:(lia)) as [Hh Hs].
    right. split; [reflexivity|]. rewrite Hh, Hs. cbn [h_handle rp_with_started rp_with_handle]. split; [exact Hh6|]. split; [|reflexivity].
    eapply FK_mono; [exact P8|]. eapply FK_mono; [exact P7|].
    destruct F6 as (l & ev & T6 & Hin & X). exists (l ++ l5), ev. split; [rewrite T6, T5, app_assoc; reflexivity|].
    split; [apply in_or_app; left; exact Hin|exact X].
Qed.
