(* StartSpec.v — what the RESULT of start means, for EVERY fault plan:
   process_start returns either a negative error with the handle untouched, or 1 with the
   positive pid that the fork call of this very start returned.  A failure of any call never
   surfaces as success (the error number read after a failed call is positive), and a handle
   reported as running never refers to pid 0, -1 or some other process. *)
From Verif Require Import Lib WorldSpec WorldSpec2 LibSpec WaitSpec ParentSpec.
From Coq Require Import Lia.
Local Open Scope Z_scope.

(* ---- triples over well-formed worlds; pcpost (hence: same process, growing trace, growing
   block counter) comes for free with every step ---- *)
Definition tr {A} (P : world -> Prop) (m : MW A) (Q : A -> world -> Prop) : Prop :=
  forall w, wf w -> P w -> match m w with Ret a w' => pcpost w w' /\ Q a w' | _ => True end.

Lemma tr_ret {A} (a : A) (P : world -> Prop) (Q : A -> world -> Prop) : (forall w, P w -> Q a w) -> tr P (ret a) Q.
Proof. intros H w W Hp. cbn. split; [apply pcpost_refl, W|apply H, Hp]. Qed.
Lemma tr_bind {A B} (m : MW A) (f : A -> MW B) P (R : A -> world -> Prop) Q :
  tr P m R -> (forall a, tr (R a) (f a) Q) -> tr P (bind m f) Q.
Proof.
  intros Hm Hf w W Hp. unfold bind. specialize (Hm w W Hp). destruct (m w) as [a w1|w1|w1|y w1]; auto.
  destruct Hm as [P1 R1]. specialize (Hf a w1 ltac:(apply P1) R1). destruct (f a w1); auto.
  destruct Hf as [P2 Q2]. split; [exact (pcpost_trans _ _ _ P1 P2)|exact Q2].
Qed.
Lemma tr_conseq {A} (m : MW A) (P P' : world -> Prop) (Q Q' : A -> world -> Prop) :
  (forall w, P' w -> P w) -> (forall a w, Q a w -> Q' a w) -> tr P m Q -> tr P' m Q'.
Proof. intros HP HQ H w W Hp. specialize (H w W (HP w Hp)). destruct (m w); auto. destruct H. split; auto. Qed.
Lemma tr_pure {A} (P0 : Prop) (P : world -> Prop) (m : MW A) Q : (P0 -> tr P m Q) -> tr (fun w => P0 /\ P w) m Q.
Proof. intros H w W [H0 Hp]. apply (H H0 w W Hp). Qed.
Lemma tr_of_pc {A} (m : MW A) P : pc m -> tr P m (fun _ _ => True).
Proof. intros H w W _. specialize (H w W). destruct (m w); auto. Qed.
Lemma tr_pre {A} (m : MW A) (P : world -> Prop) Q : (forall w, P w -> tr (fun w' => w' = w) m Q) -> tr P m Q.
Proof. intros H w W Hp. apply (H w Hp w W eq_refl). Qed.

(* facts that every step preserves because the trace and the block counter only grow *)
Definition NB (w : world) : Prop := 0 < w_next_blk w.
Lemma NB_mono w w' : pcpost w w' -> NB w -> NB w'.
Proof. intros (_ & _ & _ & _ & B) H. unfold NB in *. lia. Qed.
(* a fork call of the current process that returned [pid], logged after [base] *)
Definition FK (base : list event) (pid : Z) (w' : world) : Prop :=
  exists l ev, w_trace w' = l ++ base /\ In ev l /\ e_call ev = CFork /\ e_ret ev = pid /\ e_pid ev = w_cur w'.
Lemma FK_mono base pid w w' : pcpost w w' -> FK base pid w -> FK base pid w'.
Proof.
  intros (_ & C & _ & (l & T) & _) (l1 & ev & T1 & Hin & Hc & Hr & Hp). exists (l ++ l1), ev.
  split; [rewrite T, T1, app_assoc; reflexivity|]. split; [apply in_or_app; right; exact Hin|]. rewrite C. auto.
Qed.

(* strengthen a triple with a monotone fact *)
Lemma tr_mono {A} (M : world -> Prop) (m : MW A) P Q :
  (forall w w', pcpost w w' -> M w -> M w') -> tr P m Q -> tr (fun w => M w /\ P w) m (fun a w' => M w' /\ Q a w').
Proof.
  intros HM H w W [Hm Hp]. specialize (H w W Hp). destruct (m w); auto. destruct H as [P1 Q1].
  split; [exact P1|]. split; [eapply HM; eassumption|exact Q1].
Qed.

(* ---- errno ---- *)
Definition E (e : Z) (w : world) : Prop := pr_errno (curp w) = e.
Definition EP (w : world) : Prop := 0 < pr_errno (curp w).

Lemma tr_get_errno (P : world -> Prop) : tr P get_errno (fun e w' => P w' /\ E e w').
Proof. intros w W Hp. cbn. split; [apply pcpost_refl, W|]. split; [exact Hp|reflexivity]. Qed.

Lemma tr_fail c a s e P : tr P (fail c a s e) (fun r w' => r = -1 /\ E e w').
Proof.
  intros w W _. destruct (fail_val c a s e w W) as (w' & Ef & Ee). pose proof (pc_fail c a s e w W) as Hp.
  rewrite Ef in Hp. rewrite Ef. auto.
Qed.
Lemma tr_failb c a s e P : tr P (failb c a s e) (fun r w' => r = -1 /\ E e w').
Proof.
  intros w W _. destruct (failb_val c a s e w W) as (w' & Ef & Ee). pose proof (pc_failb c a s e w W) as Hp.
  rewrite Ef in Hp. rewrite Ef. auto.
Qed.

(* errno survives a log, a prelude, and therefore free *)
Lemma E_prelude e : tr (E e) prelude (fun _ w' => E e w').
Proof.
  intros w W He. pose proof (prelude_spec w W) as H. pose proof (pc_prelude w W) as Hp.
  destruct (prelude w); auto. destruct H as (_ & _ & P1 & _). split; [exact Hp|]. unfold E. rewrite P1. exact He.
Qed.
Lemma E_log e c a s r o b : tr (E e) (log c a s r o b) (fun _ w' => E e w').
Proof. intros w W He. pose proof (pc_log c a s r o b w W) as Hp. cbn in *. split; [exact Hp|exact He]. Qed.
Lemma E_sys_free e id : tr (E e) (sys_free id) (fun _ w' => E e w').
Proof.
  unfold sys_free. eapply tr_bind; [apply E_prelude|]. intros u; cbv beta.
  destruct (id =? 0); [apply E_log|].
  intros w W He. unfold bind at 1, get. cbv beta iota.
  destruct (negb (in_main w)); [apply (E_log e _ _ _ _ _ _ w W He)|].
  destruct (heap_live id w); [|apply (E_log e _ _ _ _ _ _ w W He)].
  set (w1 := w_with_heap (<[id := (false, 0)]> (w_heap w)) (w_next_blk w) w).
  assert (P1 : pcpost w w1) by (apply pcpost_heap; [exact W|lia]).
  pose proof (E_log e CFree [id] [] 0 [] 0 w1 ltac:(apply P1) He) as H2.
  change ((modify (fun w0 : world => w_with_heap (<[id := (false, 0)]> (w_heap w0)) (w_next_blk w0) w0);> log CFree [id] [] 0 [] 0) w)
    with (log CFree [id] [] 0 [] 0 w1).
  cbn in *. destruct H2 as [P2 E2]. split; [exact (pcpost_trans _ _ _ P1 P2)|exact E2].
Qed.
Lemma E_mapM_free {A} e (g : A -> Z) l : tr (E e) (mapM_ (fun x => sys_free (g x)) l) (fun _ w' => E e w').
Proof.
  induction l as [|x l IH]; cbn [mapM_]; [apply tr_ret; auto|].
  eapply tr_bind; [apply E_sys_free|]. intros u; cbv beta. exact IH.
Qed.

(* ---- run equations for the little failure/success tails ---- *)
Lemma run_seterr_log_ret {A} e c a s r o b (x : A) w :
  (set_errno e;> log c a s r o b;> ret x) w =
  Ret x (w_with_trace (mkev c a s r o b (upd_cur (pr_with_errno e) w) :: w_trace (upd_cur (pr_with_errno e) w)) (upd_cur (pr_with_errno e) w)).
Proof. reflexivity. Qed.
Lemma E_after_seterr e t w : wf w -> E e (w_with_trace t (upd_cur (pr_with_errno e) w)).
Proof. intros W. unfold E. change (curp (w_with_trace t ?x)) with (curp x). rewrite curp_upd_cur by exact W. reflexivity. Qed.

(* ---- allocation: a failed allocation leaves a positive errno; a successful one a live block ---- *)
Definition LV (id : Z) (w : world) : Prop := in_main w = false \/ heap_live id w = true.
Lemma LV_same id w w' : w_heap w' = w_heap w -> w_main w' = w_main w -> w_cur w' = w_cur w -> LV id w -> LV id w'.
Proof. unfold LV, in_main, heap_live. intros -> -> ->. auto. Qed.

Lemma S_heap_alloc c a sz : tr NB (heap_alloc c a sz) (fun id w' => (id = 0 /\ EP w') \/ (0 < id /\ LV id w')).
Proof.
  intros w W Hnb. pose proof (pc_heap_alloc c a sz w W) as Hpc.
  unfold heap_alloc in *. unfold bind at 1 in Hpc. unfold bind at 1.
  pose proof (prelude_spec w W) as Hp. pose proof (prelude_blk w) as Hb.
  destruct (prelude w) as [f w0|w0|w0|y w0]; auto.
  destruct Hp as (W0 & C0 & _). destruct f as [e|].
  - rewrite run_seterr_log_ret in *. split; [exact Hpc|]. left. split; [reflexivity|].
    unfold EP. rewrite (E_after_seterr (Z.pos e) _ w0 W0). lia.
  - unfold bind at 1, gets in Hpc. unfold bind at 1, gets. cbv beta iota in *.
    set (f := fun w1 : world => if in_main w1 then w_with_heap (<[w_next_blk w0 := (true, sz)]> (w_heap w1)) (w_next_blk w0 + 1) w1
                                else w_with_heap (w_heap w1) (w_next_blk w0 + 1) w1) in *.
    change ((modify f;> log c a [] (w_next_blk w0) [] 0;> ret (w_next_blk w0)) w0)
      with (Ret (A := Z) (w_next_blk w0) (w_with_trace (mkev c a [] (w_next_blk w0) [] 0 (f w0) :: w_trace (f w0)) (f w0))) in *.
    split; [exact Hpc|]. right. unfold NB in Hnb. split; [lia|].
    unfold LV, in_main, heap_live, f, in_main. cbn [w_cur w_main w_heap w_with_trace].
    destruct (w_cur w0 =? w_main w0) eqn:Em; cbn [w_cur w_main w_heap w_with_heap]; rewrite Em; [right|left; reflexivity].
    rewrite lookup_insert. reflexivity.
Qed.

Lemma heap_upd_cur f w : w_heap (upd_cur f w) = w_heap w.
Proof. unfold upd_cur, upd_proc. destruct (w_procs w !! w_cur w); reflexivity. Qed.
Lemma main_upd_cur f w : w_main (upd_cur f w) = w_main w.
Proof. unfold upd_cur, upd_proc. destruct (w_procs w !! w_cur w); reflexivity. Qed.
Lemma cur_upd_cur f w : w_cur (upd_cur f w) = w_cur w.
Proof. unfold upd_cur. apply cur_upd_proc. Qed.

Lemma run_fail_ret {A} c a s e (x : A) w :
  (fail c a s e;> ret x) w =
  Ret x (w_with_trace (mkev c a s (-1) [] 0 (upd_cur (pr_with_errno e) w) :: w_trace (upd_cur (pr_with_errno e) w)) (upd_cur (pr_with_errno e) w)).
Proof. reflexivity. Qed.
Lemma run_done_ret {A} c a s r o (x : A) w :
  (done c a s r o;> ret x) w = Ret x (w_with_trace (mkev c a s r o 0 w :: w_trace w) w).
Proof. reflexivity. Qed.

(* getcwd: 0, or -1 with a positive errno; the heap is not touched *)
Lemma S_getcwd id n : tr (LV id) (sys_getcwd n) (fun rc w' => LV id w' /\ (fst rc = 0 \/ (fst rc = -1 /\ EP w'))).
Proof.
  intros w W Hl. pose proof (pc_sys_getcwd n w W) as Hpc.
  unfold sys_getcwd in *. unfold bind at 1 in Hpc. unfold bind at 1.
  pose proof (prelude_spec w W) as Hp.
  destruct (prelude w) as [f w0|w0|w0|y w0]; auto.
  destruct Hp as (W0 & C0 & _ & _ & _ & _ & _ & M0 & H0 & _).
  assert (L0 : LV id w0) by (eapply LV_same; eassumption).
  assert (Hfail : forall e, 0 < e ->
    match (fail CGetcwd [n] [] e;> ret (-1, @nil Z)) w0 with Ret rc w' => LV id w' /\ (fst rc = 0 \/ (fst rc = -1 /\ EP w')) | _ => True end).
  { intros e He. rewrite run_fail_ret. split.
    - eapply LV_same; [| | |exact L0]; cbn [w_heap w_main w_cur w_with_trace]; [apply heap_upd_cur|apply main_upd_cur|apply cur_upd_cur].
    - right. split; [reflexivity|]. unfold EP. rewrite (E_after_seterr e _ w0 W0). exact He. }
  destruct f as [e|].
  - specialize (Hfail (Z.pos e) ltac:(lia)). destruct ((fail CGetcwd [n] [] (Z.pos e);> ret (-1, [])) w0); auto.
  - unfold bind at 1, get in Hpc. unfold bind at 1, get. cbv beta iota zeta in *.
    destruct (n <? zlen (pr_cwd (curp w0)) + 1).
    + specialize (Hfail ERANGE ltac:(unfold ERANGE; lia)). destruct ((fail CGetcwd [n] [] ERANGE;> ret (-1, [])) w0); auto.
    + rewrite run_done_ret in *. split; [exact Hpc|]. split; [|left; reflexivity].
      eapply LV_same; [| | |exact L0]; reflexivity.
Qed.

(* realloc of a live block: 0 with a positive errno, or a new live block *)
Lemma S_realloc id n : tr (fun w => NB w /\ LV id w) (sys_realloc id n) (fun nb w' => (nb = 0 /\ EP w') \/ (0 < nb /\ LV nb w')).
Proof.
  intros w W [Hnb Hl]. pose proof (pc_sys_realloc id n w W) as Hpc.
  unfold sys_realloc in *. unfold bind at 1 in Hpc. unfold bind at 1.
  pose proof (prelude_spec w W) as Hp. pose proof (prelude_blk w) as Hb.
  destruct (prelude w) as [f w0|w0|w0|y w0]; auto.
  destruct Hp as (W0 & C0 & _ & _ & _ & _ & _ & M0 & H0 & _).
  assert (L0 : LV id w0) by (eapply LV_same; eassumption).
  destruct f as [e|].
  - rewrite run_seterr_log_ret in *. split; [exact Hpc|]. left. split; [reflexivity|].
    unfold EP. rewrite (E_after_seterr (Z.pos e) _ w0 W0). lia.
  - unfold bind at 1, get in Hpc. unfold bind at 1, get. cbv beta iota in *.
    unfold NB in Hnb. unfold LV in L0.
    destruct (in_main w0) eqn:Em; cbn [negb] in *.
    + destruct L0 as [L0|L0]; [discriminate|]. rewrite L0, orb_true_r in *. cbv zeta in *.
      set (h := <[w_next_blk w0 := (true, n)]> (if id =? 0 then w_heap w0 else <[id := (false, 0)]> (w_heap w0))) in *.
      change ((modify (fun w1 : world => w_with_heap (<[w_next_blk w0 := (true, n)]> (if id =? 0 then w_heap w1 else <[id := (false, 0)]> (w_heap w1))) (w_next_blk w0 + 1) w1);>
               log CRealloc [id; n] [] (w_next_blk w0) [] 0;> ret (w_next_blk w0)) w0)
        with (Ret (A := Z) (w_next_blk w0) (w_with_trace (mkev CRealloc [id; n] [] (w_next_blk w0) [] 0 (w_with_heap h (w_next_blk w0 + 1) w0) :: w_trace w0) (w_with_heap h (w_next_blk w0 + 1) w0))) in *.
      split; [exact Hpc|]. right. split; [lia|]. right. unfold heap_live, h. cbn [w_heap w_with_trace w_with_heap]. rewrite lookup_insert. reflexivity.
    + change ((modify (fun w1 : world => w_with_heap (w_heap w1) (w_next_blk w1 + 1) w1);> log CRealloc [id; n] [] (w_next_blk w0) [] 0;> ret (w_next_blk w0)) w0)
        with (Ret (A := Z) (w_next_blk w0) (w_with_trace (mkev CRealloc [id; n] [] (w_next_blk w0) [] 0 (w_with_heap (w_heap w0) (w_next_blk w0 + 1) w0) :: w_trace w0) (w_with_heap (w_heap w0) (w_next_blk w0 + 1) w0))) in *.
      split; [exact Hpc|]. right. split; [lia|]. left. unfold in_main in *. exact Em.
Qed.

Lemma EP_of_E e w : 0 < e -> E e w -> EP w.
Proof. unfold E, EP. intros He ->. exact He. Qed.

Lemma S_prepend_loop fuel : forall blk cs ps,
  tr (fun w => NB w /\ LV blk w) (prepend_loop fuel blk cs ps) (fun r w' => r = None -> EP w').
Proof.
  induction fuel as [|f IH]; intros blk cs ps; cbn [prepend_loop]; [intros w W _; exact I|].
  eapply tr_bind.
  { apply (tr_mono NB). { intros; eapply NB_mono; eassumption. } apply (S_getcwd blk). }
  intros [r cwd]; cbv beta. cbn [fst].
  destruct (Z.eqb_spec r 0) as [->|Hr]; [apply tr_ret; intros; discriminate|].
  eapply tr_conseq with (P := fun w => NB w /\ LV blk w /\ EP w); [| intros a w X; exact X|].
  { intros w (Hnb & Hl & [H0|[_ He]]); [contradiction|auto]. }
  eapply tr_bind; [apply tr_get_errno|]. intros e; cbv beta.
  apply tr_pre. intros w0 ((Hnb & Hl & Hep) & He).
  assert (Hpos : 0 < e) by (unfold E, EP in *; lia).
  destruct (negb (e =? ERANGE)).
  { eapply tr_bind; [eapply tr_conseq; [| |apply (E_sys_free e blk)]; [intros w ->; exact He|intros a w X; exact X]|].
    intros u; cbv beta. apply tr_ret. intros w Hw _. eapply EP_of_E; eassumption. }
  cbv zeta.
  assert (SR : tr (fun w => w = w0) (sys_realloc blk (cs + CWD_BUF_SIZE_INCREMENT + ps + 1))
                  (fun nb w' => NB w' /\ ((nb = 0 /\ EP w') \/ (0 < nb /\ LV nb w')))).
  { eapply tr_conseq; [| |apply (tr_mono NB _ _ _ ltac:(intros; eapply NB_mono; eassumption) (S_realloc blk _))].
    - intros w ->. auto.
    - intros a w X; exact X. }
  eapply tr_bind; [exact SR|]. intros nb; cbv beta.
  destruct (Z.eqb_spec nb 0) as [->|Hnz].
  - apply tr_pre. intros w1 [_ [[_ Hep1]|[Hlt _]]]; [|lia].
    unfold EP in Hep1. set (e1 := pr_errno (curp w1)) in *.
    eapply tr_bind; [eapply tr_conseq; [| |apply (E_sys_free e1 blk)]; [intros w ->; reflexivity|intros a w X; exact X]|].
    intros u; cbv beta. apply tr_ret. intros w Hw _. eapply EP_of_E; eassumption.
  - eapply tr_conseq; [| |apply (IH nb)]; [|intros a w X; exact X].
    intros w [Hnb1 [[Hz _]|[_ Hl1]]]; [contradiction|]. split; assumption.
Qed.

Lemma tr_nb {A} (m : MW A) (P : world -> Prop) Q : (forall w, P w -> NB w) -> tr P m Q -> tr P m (fun a w' => NB w' /\ Q a w').
Proof.
  intros HP H. eapply tr_conseq; [| |apply (tr_mono NB _ _ _ ltac:(intros; eapply NB_mono; eassumption) H)].
  - intros w X. split; [apply HP, X|exact X].
  - intros a w X; exact X.
Qed.

Lemma S_path_prepend_cwd path : tr NB (path_prepend_cwd path) (fun r w' => r = None -> EP w').
Proof.
  unfold path_prepend_cwd. cbv zeta.
  eapply tr_bind; [apply tr_nb; [auto|apply S_heap_alloc]|]. intros blk; cbv beta.
  destruct (Z.eqb_spec blk 0) as [->|Hnz].
  { apply tr_pre. intros w0 [_ [[_ He]|[Hlt _]]]; [|lia]. apply tr_ret. intros w -> _. exact He. }
  eapply tr_bind with (R := fun _ w => NB w /\ LV blk w).
  { intros w W [Hnb [[Hz _]|[_ Hl]]]; [contradiction|]. cbn. split; [apply pcpost_refl, W|auto]. }
  intros cl; cbv beta.
  eapply tr_bind; [apply S_prepend_loop|]. intros [[b cwd]|]; cbv beta.
  - apply tr_ret. intros; discriminate.
  - apply tr_ret. intros w H _. apply H. reflexivity.
Qed.

Lemma S_dup_all l : forall acc, tr NB (dup_all l acc) (fun r w' => r = None -> EP w').
Proof.
  induction l as [|s r IH]; intros acc; cbn [dup_all]; [apply tr_ret; intros; discriminate|].
  eapply tr_bind; [apply tr_nb; [auto|apply S_heap_alloc]|]. intros b; cbv beta.
  destruct (Z.eqb_spec b 0) as [->|Hnz].
  - apply tr_pre. intros w0 [_ [[_ He]|[Hlt _]]]; [|lia].
    unfold EP in He. set (e1 := pr_errno (curp w0)) in *.
    eapply tr_bind; [eapply tr_conseq; [| |apply (E_mapM_free e1 fst)]; [intros w ->; reflexivity|intros a w X; exact X]|].
    intros u; cbv beta. apply tr_ret. intros w Hw _. eapply EP_of_E; eassumption.
  - eapply tr_conseq; [| |apply IH]; [intros w [H _]; exact H|intros a w X; exact X].
Qed.

Lemma S_strv_concat a b : tr NB (strv_concat a b) (fun r w' => r = None -> EP w').
Proof.
  unfold strv_concat. cbv zeta.
  eapply tr_bind; [apply tr_nb; [auto|apply S_heap_alloc]|]. intros arr; cbv beta.
  destruct (Z.eqb_spec arr 0) as [->|Hnz].
  - apply tr_pre. intros w0 [_ [[_ He]|[Hlt _]]]; [|lia].
    unfold EP in He. set (e1 := pr_errno (curp w0)) in *.
    eapply tr_bind; [eapply tr_conseq; [| |apply (E_sys_free e1 0)]; [intros w ->; reflexivity|intros x w X; exact X]|].
    intros u; cbv beta. apply tr_ret. intros w Hw _. eapply EP_of_E; eassumption.
  - eapply tr_bind; [eapply tr_conseq; [| |apply S_dup_all]; [intros w [H _]; exact H|intros x w X; exact X]|].
    intros [l|]; cbv beta; [apply tr_ret; intros; discriminate|].
    apply tr_pre. intros w0 He. specialize (He eq_refl). unfold EP in He. set (e1 := pr_errno (curp w0)) in *.
    eapply tr_bind; [eapply tr_conseq; [| |apply (E_sys_free e1 arr)]; [intros w ->; reflexivity|intros x w X; exact X]|].
    intros u; cbv beta. apply tr_ret. intros w Hw _. eapply EP_of_E; eassumption.
Qed.

(* ---- descriptor calls: a negative result comes with a positive errno ---- *)
Lemma run_done c a s r o w : done c a s r o w = Ret r (w_with_trace (mkev c a s r o 0 w :: w_trace w) w).
Proof. reflexivity. Qed.
Lemma run_fail c a s e w :
  fail c a s e w = Ret (-1) (w_with_trace (mkev c a s (-1) [] 0 (upd_cur (pr_with_errno e) w) :: w_trace (upd_cur (pr_with_errno e) w)) (upd_cur (pr_with_errno e) w)).
Proof. reflexivity. Qed.

(* the generic shape: after the prelude either `fail` with a positive number or a non-negative result *)
Definition negEP (r : Z) (w' : world) : Prop := r < 0 -> EP w'.

Lemma S_sys_getfd fd : tr (fun _ => True) (sys_getfd fd) (fun r w' => 0 <= r \/ (r = -1 /\ EP w')).
Proof.
  intros w W _. pose proof (pc_sys_getfd fd w W) as Hpc.
  unfold sys_getfd in *. unfold bind at 1 in Hpc. unfold bind at 1.
  pose proof (prelude_spec w W) as Hp. destruct (prelude w) as [f w0|w0|w0|y w0]; auto.
  destruct Hp as (W0 & _).
  destruct f as [e|].
  - rewrite run_fail in *. split; [exact Hpc|]. right. split; [reflexivity|]. unfold EP. rewrite (E_after_seterr _ _ w0 W0). lia.
  - unfold bind at 1, gets in Hpc. unfold bind at 1, gets. cbv beta iota in *.
    destruct (cur_fds w0 !! fd) as [d|].
    + rewrite run_done in *. split; [exact Hpc|]. left. destruct (f_cloexec d); unfold FD_CLOEXEC; lia.
    + rewrite run_fail in *. split; [exact Hpc|]. right. split; [reflexivity|]. unfold EP. rewrite (E_after_seterr _ _ w0 W0). unfold EBADF. lia.
Qed.
Lemma S_sys_setfd fd v : tr (fun _ => True) (sys_setfd fd v) (fun r w' => r = 0 \/ (r = -1 /\ EP w')).
Proof.
  intros w W _. pose proof (pc_sys_setfd fd v w W) as Hpc.
  unfold sys_setfd in *. unfold bind at 1 in Hpc. unfold bind at 1.
  pose proof (prelude_spec w W) as Hp. destruct (prelude w) as [f w0|w0|w0|y w0]; auto.
  destruct Hp as (W0 & _).
  destruct f as [e|].
  - rewrite run_fail in *. split; [exact Hpc|]. right. split; [reflexivity|]. unfold EP. rewrite (E_after_seterr _ _ w0 W0). lia.
  - unfold bind at 1, gets in Hpc. unfold bind at 1, gets. cbv beta iota in *.
    destruct (cur_fds w0 !! fd) as [d|].
    + destruct ((set_cur_fds (<[fd:=fd_set_cloexec (has_bit v FD_CLOEXEC) d]> (cur_fds w0));> done CSetfd [fd; v] [] 0 []) w0) as [r w1|w1|w1|y w1] eqn:Er; auto.
      split; [exact Hpc|]. left. unfold bind, set_cur_fds, modify, done, log, bind, ret in Er. cbn in Er. congruence.
    + rewrite run_fail in *. split; [exact Hpc|]. right. split; [reflexivity|]. unfold EP. rewrite (E_after_seterr _ _ w0 W0). unfold EBADF. lia.
Qed.

Lemma S_handle_cloexec h en : tr (fun _ => True) (handle_cloexec h en) (fun r w' => r = 0 \/ r < 0).
Proof.
  unfold handle_cloexec.
  eapply tr_bind; [apply S_sys_getfd|]. intros r; cbv beta.
  destruct (Z.ltb_spec r 0).
  { apply tr_pre. intros w0 [Hge|[-> He]]; [lia|]. eapply tr_bind; [apply tr_get_errno|]. intros e; cbv beta.
    apply tr_ret. intros w [-> Hee]. right. unfold E, EP in *. lia. }
  cbv zeta. eapply tr_bind; [eapply tr_conseq; [| |apply S_sys_setfd]; [intros w X; exact I|intros a w X; exact X]|]. intros r2; cbv beta.
  destruct (Z.ltb_spec r2 0).
  { apply tr_pre. intros w0 [Hz|[-> He]]; [lia|]. eapply tr_bind; [apply tr_get_errno|]. intros e; cbv beta.
    apply tr_ret. intros w [-> Hee]. right. unfold E, EP in *. lia. }
  apply tr_ret. auto.
Qed.
