(* ExtractC13.v — extraction for the C13 tie (harness/ties/C13.sh): the model of options.c
   and the documentation-derived specification.  ExtrOcamlBasic only: bool/option/list/prod
   map to OCaml's; Z and positive stay the extracted inductives (converted at the boundary
   by harness/unit/c13_check.ml).  Compiled by the tie from its build directory; writes
   c13_model.ml / c13_model.mli into the current directory. *)
From Verif Require Import LibPure OptSpec.
Require Import ExtrOcamlBasic.
Extraction Language OCaml.
Extraction "c13_model.ml"
  parse_redirect parse_stop_actions parse_options
  doc_ok doc_violations doc_effective doc_resolved doc_stop stream_of.
