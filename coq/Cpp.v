(* Cpp.v -- property C19 "reproc++ is a faithful mapping of the C API": definitions.

   The data (gen/Cpp_gen.v) is regenerated from the sources by harness/translate/gen_cpp.py on
   every run; this file contains the decidable checks over that data, the specification lemmas
   that turn a successful check into a readable statement, and a small Gallina model of
   `error_code_from` (reproc.cpp:17-30).  Theorems are in Properties_C19.v.

   What the tables cannot express (the meaning of duration::count(), static_cast between the
   enum types, array::data(), the container conversions of arguments / env) is covered only by
   the correspondence harness harness/ties/C19.sh (see C19_NOTES.md). *)
From Coq Require Import ZArith List String Ascii Bool Arith Lia.
From Verif Require Import Cpp_gen.
Import ListNotations.
Local Open Scope string_scope.

(* ------------------------------------------------------------------ strings and lists *)

Fixpoint strip_prefix (p s : string) : option string :=
  match p, s with
  | EmptyString, _ => Some s
  | String a p', String b s' => if Ascii.eqb a b then strip_prefix p' s' else None
  | String _ _, EmptyString => None
  end.

Definition strip_suffix (suf s : string) : option string :=
  let n := String.length s in
  let m := String.length suf in
  if (m <=? n)%nat
  then if String.eqb (substring (n - m) m s) suf then Some (substring 0 (n - m) s) else None
  else None.

Definition has_prefix (p s : string) : bool :=
  match strip_prefix p s with Some _ => true | None => false end.

Definition upper_ascii (a : ascii) : ascii :=
  let n := nat_of_ascii a in
  if ((97 <=? n) && (n <=? 122))%nat then ascii_of_nat (n - 32) else a.

Fixpoint upper (s : string) : string :=
  match s with
  | EmptyString => EmptyString
  | String a s' => String (upper_ascii a) (upper s')
  end.

Definition mem (x : string) (l : list string) : bool := existsb (String.eqb x) l.

Fixpoint assoc {A} (k : string) (l : list (string * A)) : option A :=
  match l with
  | [] => None
  | (k', v) :: l' => if String.eqb k k' then Some v else assoc k l'
  end.

Fixpoint nodupb (l : list string) : bool :=
  match l with
  | [] => true
  | x :: l' => negb (mem x l') && nodupb l'
  end.

Definition list_eqb (a b : list string) : bool :=
  (List.length a =? List.length b)%nat && forallb (fun p => String.eqb (fst p) (snd p)) (combine a b).

Lemma mem_In x l : mem x l = true -> In x l.
Proof.
  unfold mem. rewrite existsb_exists. intros (y & Hy & E).
  apply String.eqb_eq in E. now subst.
Qed.

Lemma list_eqb_eq a b : list_eqb a b = true -> a = b.
Proof.
  unfold list_eqb. revert b. induction a as [|x a IH]; intros [|y b]; simpl; try discriminate; auto.
  rewrite !andb_true_iff. intros (L & (E & F)).
  apply String.eqb_eq in E. subst. f_equal. apply IH. now rewrite L, F.
Qed.

(* ------------------------------------------------------------------ the renaming table

   A leaf of a positional initialiser is a source expression `<root>.<e>`; `e` is a path of
   C++ data members, possibly ending in ONE accessor call.  Each accessor the wrapper uses is
   listed here with the C++ field it reads and the C field name it must land in:
     (suffix of e, replacement giving the C++ field, replacement giving the C field).
   Any other leaf is taken literally (C++ field e must reach the C field named e), so an
   unknown accessor can never match a C field name (those contain no parentheses).

   Justification of each entry (the *meaning* of the accessor is checked by the tie):
   1. x.count()        reproc::milliseconds = std::chrono::duration<int, std::milli>; count()
                       returns the stored int number of milliseconds; the C fields (deadline,
                       stop.*.timeout) are `int` milliseconds.  C++ field x, C field x.
   2. env.extra.data() reproc::env derives from detail::array; data() returns the stored
                       `const char *const *` (array.hpp:47).  C++ field env.extra -> C env.extra.
   3. input.data()     reproc::input::data() returns data_ (input.hpp:26); the C++ class `input`
   4. input.size()     is one field, the C struct has the pair input.data / input.size. *)
Definition accessor_table : list (string * (string * string)) :=
  [ (".count()",         ("",          ""));
    ("env.extra.data()", ("env.extra", "env.extra"));
    ("input.data()",     ("input",     "input.data"));
    ("input.size()",     ("input",     "input.size")) ].

(* resolve e = (C++ field read, C field it must initialise) *)
Fixpoint resolve_in (t : list (string * (string * string))) (e : string) : string * string :=
  match t with
  | [] => (e, e)
  | (suf, (cppsuf, csuf)) :: t' =>
      match strip_suffix suf e with
      | Some pre => (pre ++ cppsuf, pre ++ csuf)
      | None => resolve_in t' e
      end
  end.
Definition resolve := resolve_in accessor_table.

(* leaves that are not C++ option fields: parameters of the converting function.
   `fork`: reproc_options_from(const options &, bool fork); process::fork() passes true,
   process::start() passes false (checked by methods_ok below and by the tie). *)
Definition param_table : list (string * string) := [ ("fork", "fork") ].

(* C++ fields of `struct options` with no C namesake (so they cannot reach the C layer).
   `timeout`: reproc.hpp:110; the C option was turned into an argument of reproc_poll
   (CHANGELOG "Turn `timeout` option into an argument for `reproc_poll`"), the C++ field stayed
   behind and is read by nothing.  It is not among the fields property C19 enumerates. *)
Definition cpp_only_fields : list string := [ "timeout" ].

(* ------------------------------------------------------------------ positional initialisers *)

Definition names (l : list (string * string)) : list string := map fst l.

(* leaf `leaf` of the initialiser of a function whose options parameter is `root` and whose
   parameters are `params` is a correct initialiser for the C field `cfield` *)
Definition leaf_ok (root : string) (params cppfields : list string) (leaf cfield : string) : bool :=
  match strip_prefix (root ++ ".") leaf with
  | Some e => let '(cppf, cname) := resolve e in mem cppf cppfields && String.eqb cname cfield
  | None => mem leaf params && negb (String.eqb leaf root) &&
            match assoc leaf param_table with Some c => String.eqb c cfield | None => false end
  end.

Definition positional_ok (params cppfields leaves cfields : list string) : bool :=
  match params with
  | [] => false
  | root :: _ =>
      (List.length leaves =? List.length cfields)%nat &&
      forallb (fun p => leaf_ok root params cppfields (fst p) (snd p)) (combine leaves cfields)
  end.

Lemma combine_nth_error {A B} (l : list A) (l' : list B) k a b :
  nth_error l k = Some a -> nth_error l' k = Some b -> In (a, b) (combine l l').
Proof.
  revert l' k. induction l as [|x l IH]; intros [|y l'] [|k]; simpl; try discriminate.
  - intros [= ->] [= ->]. now left.
  - intros H1 H2. right. eauto.
Qed.

(* what a successful check means: same number of leaves, and leaf k initialises C field k from
   the same-named C++ field (modulo the accessor table) or from the parameter paired with it *)
Definition positional_spec (params cppfields leaves cfields : list string) : Prop :=
  exists root rest, params = root :: rest /\
  List.length leaves = List.length cfields /\
  forall k leaf cfield,
    nth_error leaves k = Some leaf -> nth_error cfields k = Some cfield ->
    leaf_ok root params cppfields leaf cfield = true.

Lemma positional_ok_spec params cppfields leaves cfields :
  positional_ok params cppfields leaves cfields = true ->
  positional_spec params cppfields leaves cfields.
Proof.
  unfold positional_ok, positional_spec. destruct params as [|root rest]; [discriminate|].
  rewrite andb_true_iff, Nat.eqb_eq, forallb_forall. intros (L & F).
  exists root, rest. repeat split; auto.
  intros k leaf cfield H1 H2. exact (F (leaf, cfield) (combine_nth_error _ _ _ _ _ H1 H2)).
Qed.

(* the unfolded reading of leaf_ok, for the reader of the theorems *)
Lemma leaf_ok_reading root params cppfields leaf cfield :
  leaf_ok root params cppfields leaf cfield = true ->
  (exists e, strip_prefix (root ++ ".") leaf = Some e /\
             In (fst (resolve e)) cppfields /\ snd (resolve e) = cfield)
  \/ (In leaf params /\ leaf <> root /\ assoc leaf param_table = Some cfield).
Proof.
  unfold leaf_ok. destruct (strip_prefix (root ++ ".") leaf) as [e|].
  - destruct (resolve e) as (cppf, cname) eqn:R. rewrite andb_true_iff.
    intros (M & E). left. exists e. rewrite R. simpl. split; auto. split; [now apply mem_In|].
    now apply String.eqb_eq.
  - rewrite !andb_true_iff, negb_true_iff. intros ((M & N) & A). right.
    split; [now apply mem_In|]. split.
    + intros ->. now rewrite String.eqb_refl in N.
    + destruct (assoc leaf param_table); [|discriminate]. apply String.eqb_eq in A. now subst.
Qed.

Definition options_positional_ok : bool :=
  positional_ok reproc_options_from_params (names cpp_options_fields)
                reproc_options_from_init (names c_reproc_options_fields).
Definition redirect_positional_ok : bool :=
  positional_ok reproc_redirect_from_params (names cpp_redirect_fields)
                reproc_redirect_from_init (names c_reproc_redirect_fields).
Definition stop_positional_ok : bool :=
  positional_ok reproc_stop_actions_from_params (names cpp_stop_actions_fields)
                reproc_stop_actions_from_init (names c_reproc_stop_actions_fields).

(* every C++ options field (except cpp_only_fields) is read by some leaf *)
Definition options_field_used (f : string) : bool :=
  existsb (fun leaf => match strip_prefix "options." leaf with
                       | Some e => String.eqb (fst (resolve e)) f
                       | None => false end) reproc_options_from_init.
Definition options_fields_covered_ok : bool :=
  forallb (fun f => mem f cpp_only_fields || options_field_used f) (names cpp_options_fields).

Lemma options_fields_covered_spec :
  options_fields_covered_ok = true ->
  forall f, In f (names cpp_options_fields) -> ~ In f cpp_only_fields ->
  exists leaf e, In leaf reproc_options_from_init /\
                 strip_prefix "options." leaf = Some e /\ fst (resolve e) = f.
Proof.
  unfold options_fields_covered_ok. rewrite forallb_forall. intros H f Hf Hn.
  specialize (H f Hf). rewrite orb_true_iff in H. destruct H as [H|H].
  - exfalso. apply Hn. now apply mem_In.
  - unfold options_field_used in H. rewrite existsb_exists in H. destruct H as (leaf & Hl & H).
    destruct (strip_prefix "options." leaf) as [e|] eqn:P; [|discriminate].
    apply String.eqb_eq in H. exists leaf, e. auto.
Qed.

(* ------------------------------------------------------------------ options::clone *)

(* field f of struct options is assigned by clone: some statement `clone.p = other.p'` where p
   is f or a dotted prefix of f (whole-struct assignment) and p' reads the same field p
   (modulo the accessor table: `clone.env.extra = other.env.extra.data()`) *)
Definition clone_covers (f : string) : bool :=
  existsb (fun lr =>
    match strip_prefix (clone_local ++ ".") (fst lr), strip_prefix (clone_param ++ ".") (snd lr) with
    | Some p, Some q => (String.eqb p f || has_prefix (p ++ ".") f) && String.eqb (fst (resolve q)) p
    | _, _ => false
    end) clone_assigns.

Definition clone_complete : bool := forallb clone_covers (names cpp_options_fields).

Lemma clone_complete_spec :
  clone_complete = true ->
  forall f, In f (names cpp_options_fields) ->
  exists l r p q, In (l, r) clone_assigns /\
    strip_prefix (clone_local ++ ".") l = Some p /\ strip_prefix (clone_param ++ ".") r = Some q /\
    (p = f \/ has_prefix (p ++ ".") f = true) /\ fst (resolve q) = p.
Proof.
  unfold clone_complete. rewrite forallb_forall. intros H f Hf. specialize (H f Hf).
  unfold clone_covers in H. rewrite existsb_exists in H. destruct H as ((l, r) & Hin & H). cbn [fst snd] in H.
  destruct (strip_prefix (clone_local ++ ".") l) as [p|] eqn:P; [|discriminate].
  destruct (strip_prefix (clone_param ++ ".") r) as [q|] eqn:Q; [|discriminate].
  rewrite andb_true_iff, orb_true_iff in H. destruct H as (H1 & H2).
  apply String.eqb_eq in H2. exists l, r, p, q. repeat split; auto.
  destruct H1 as [H1|H1]; [left; now apply String.eqb_eq in H1 | now right].
Qed.

(* ------------------------------------------------------------------ enumerators and constants *)

(* C++ enum  |->  prefix of its C enumerators.  The C name of enumerator n is
   prefix ++ upper(n without one trailing '_') : reproc.hpp appends '_' where the plain word is a
   keyword, a macro or clashes with a member (default_, stdout_, handle_, file_, path_). *)
Definition enum_table : list (string * string) :=
  [ ("stop",           "REPROC_STOP_");
    ("redirect::type", "REPROC_REDIRECT_");
    ("env::type",      "REPROC_ENV_");
    ("stream",         "REPROC_STREAM_");
    ("event",          "REPROC_EVENT_") ].

Definition c_name (prefix n : string) : string :=
  prefix ++ upper (match strip_suffix "_" n with Some p => p | None => n end).

Definition enumerator_ok (prefix : string) (nv : string * Z) : bool :=
  match assoc (c_name prefix (fst nv)) c_enumerators with
  | Some v => Z.eqb v (snd nv)
  | None => false
  end.

Definition enum_ok (e : string * list (string * Z)) : bool :=
  match assoc (fst e) enum_table with
  | None => false
  | Some prefix =>
      forallb (enumerator_ok prefix) (snd e) &&
      nodupb (map (fun nv => c_name prefix (fst nv)) (snd e)) &&
      (List.length (snd e) =? List.length (filter (fun cn => has_prefix prefix (fst cn)) c_enumerators))%nat
  end.

Definition enums_ok : bool :=
  forallb enum_ok cpp_enums &&                                   (* every C++ enum, every enumerator *)
  forallb (fun t => mem (fst t) (map fst cpp_enums)) enum_table && (* the five enums exist *)
  nodupb (map fst cpp_enums) && nodupb (map fst c_enumerators) &&
  forallb (fun cn => existsb (fun t => has_prefix (snd t) (fst cn)) enum_table) c_enumerators.
                                                                 (* no C enumerator left over *)

Lemma enums_ok_spec :
  enums_ok = true ->
  forall ename enumerators n v,
    In (ename, enumerators) cpp_enums -> In (n, v) enumerators ->
    exists prefix, assoc ename enum_table = Some prefix /\
                   assoc (c_name prefix n) c_enumerators = Some v.
Proof.
  unfold enums_ok. rewrite !andb_true_iff, forallb_forall. intros ((((H & _) & _) & _) & _).
  intros ename enumerators n v He Hn. specialize (H _ He). unfold enum_ok in H. cbn [fst snd] in H.
  destruct (assoc ename enum_table) as [prefix|]; [|discriminate].
  rewrite !andb_true_iff, forallb_forall in H. destruct H as ((H & _) & _).
  specialize (H _ Hn). unfold enumerator_ok in H. cbn [fst snd] in H.
  exists prefix. split; auto.
  destruct (assoc (c_name prefix n) c_enumerators) as [v'|]; [|discriminate].
  apply Z.eqb_eq in H. now subst.
Qed.

(* reproc.cpp:9-15: each C++ constant is initialised from the C constant (milliseconds(x) is the
   explicit duration constructor storing x) *)
Definition const_table : list (string * string) :=
  [ ("signal::kill",      "REPROC_SIGKILL");
    ("signal::terminate", "REPROC_SIGTERM");
    ("infinite",          "reproc::milliseconds(REPROC_INFINITE)");
    ("deadline",          "reproc::milliseconds(REPROC_DEADLINE)") ].

Definition pairs_eqb (a b : list (string * string)) : bool :=
  list_eqb (map fst a) (map fst b) && list_eqb (map snd a) (map snd b).

Lemma pairs_eqb_eq a b : pairs_eqb a b = true -> a = b.
Proof.
  unfold pairs_eqb. rewrite andb_true_iff. intros (H1 & H2).
  apply list_eqb_eq in H1. apply list_eqb_eq in H2.
  revert b H1 H2. induction a as [|(x, y) a IH]; intros [|(x', y') b]; simpl; try discriminate; auto.
  intros [= -> H1] [= -> H2]. f_equal. auto.
Qed.

Definition consts_ok : bool := pairs_eqb cpp_const_inits const_table.

(* ------------------------------------------------------------------ error_code_from *)

(* std::error_code is a pair (value, category); operator bool is value != 0; the default
   constructed error_code is (0, system_category) *)
Inductive category := system_category | generic_category.
Definition error_code := (category * Z)%type.
Definition success : error_code := (system_category, 0%Z).
Definition is_error (ec : error_code) : Prop := snd ec <> 0%Z.

(* transcription of reproc.cpp:17-30 *)
Definition error_code_from (r : Z) : error_code :=
  if (r >=? 0)%Z then success
  else if (r =? C_REPROC_EPIPE)%Z then (generic_category, ERRC_broken_pipe)
  else (system_category, (- r)%Z).

(* the normalised statements of error_code_from as regenerated from the source: the Gallina
   model above is the line-by-line reading of exactly this text *)
Definition error_code_from_text : list string * list string :=
  (["r"],
   ["if (r >= 0) {"; "return {}"; "}";
    "if (r == REPROC_EPIPE) {"; "return {broken_pipe, generic_category()}"; "}";
    "return {-r, system_category()}"]).

Definition body_eqb (a b : list string * list string) : bool :=
  list_eqb (fst a) (fst b) && list_eqb (snd a) (snd b).

Definition error_code_transcribed_ok : bool :=
  match assoc "error_code_from" cpp_bodies with
  | Some b => body_eqb b error_code_from_text
  | None => false
  end.

Lemma error_code_from_correct :
  (C_REPROC_EPIPE < 0)%Z -> ERRC_broken_pipe <> 0%Z ->
  forall r : Z,
    ((r >= 0)%Z -> error_code_from r = success) /\
    ((r < 0)%Z -> is_error (error_code_from r)) /\
    ((r < 0)%Z -> r <> C_REPROC_EPIPE -> error_code_from r = (system_category, (- r)%Z)) /\
    (r = C_REPROC_EPIPE -> error_code_from r = (generic_category, ERRC_broken_pipe)).
Proof.
  intros Hneg Hbp r. unfold error_code_from, is_error, success.
  destruct (Z.geb_spec r 0) as [G|G]; destruct (Z.eqb_spec r C_REPROC_EPIPE) as [E|E];
    repeat split; intros; simpl; try lia; auto.
Qed.

(* ------------------------------------------------------------------ wrapper methods *)

(* method |-> (C function it must call, optional first statement, admissible return forms).
   Every member function of `process` defined in reproc.cpp except poll (below) has the shape
       [reproc_options reproc_options = reproc_options_from(options, <fork?>);]
       int r = <C function>(impl_.get(), ...);
       return error_code_from(r);   or   return {<r or r == 0>, error_code_from(r)};          *)
Definition method_table : list (string * (string * list string)) :=
  [ ("process::start",     ("reproc_start",     ["reproc_options reproc_options = reproc_options_from(options, false)"]));
    ("process::fork",      ("reproc_start",     ["reproc_options reproc_options = reproc_options_from(options, true)"]));
    ("process::read",      ("reproc_read",      []));
    ("process::write",     ("reproc_write",     []));
    ("process::close",     ("reproc_close",     []));
    ("process::wait",      ("reproc_wait",      []));
    ("process::terminate", ("reproc_terminate", []));
    ("process::kill",      ("reproc_kill",      []));
    ("process::stop",      ("reproc_stop",      []));
    ("process::pid",       ("reproc_pid",       [])) ].

Definition return_forms (m : string) : list string :=
  if String.eqb m "process::fork"
  then ["return {r == 0, error_code_from(r)}"]
  else ["return error_code_from(r)"; "return {r, error_code_from(r)}"].

Definition method_ok (m : string * (string * list string)) : bool :=
  let '(name, (cfun, pre)) := m in
  match assoc name cpp_bodies with
  | None => false
  | Some (_, body) =>
      match rev body with
      | ret :: call :: before =>
          list_eqb (rev before) pre &&
          has_prefix ("int r = " ++ cfun ++ "(impl_.get()") call &&
          mem ret (return_forms name)
      | _ => false
      end
  end.

(* process::poll delegates to the free function poll; poll calls reproc_poll on a copy of the
   sources and copies the events back only when r >= 0 (reproc.cpp:86-94, 147-170) *)
Definition poll_text : list (string * (list string * list string)) :=
  [ ("process::poll", (["interests"; "timeout"],
      ["event::source source = {move(*this), interests, 0}";
       "std::error_code ec = poll(&source, 1, timeout)";
       "*this = move(source.process)";
       "return {source.events, ec}"]));
    ("poll", (["sources"; "num_sources"; "timeout"],
      ["reproc_event_source * reproc_sources = new reproc_event_source[num_sources]";
       "for (size_t i = 0; i < num_sources; i++) {";
       "reproc_sources[i] = {sources[i].process.impl_.get(), sources[i].interests, 0}";
       "}";
       "int r = reproc_poll(reproc_sources, num_sources, timeout.count())";
       "if (r >= 0) {";
       "for (size_t i = 0; i < num_sources; i++) {";
       "sources[i].events = reproc_sources[i].events";
       "}";
       "}";
       "delete[] reproc_sources";
       "return error_code_from(r)"])) ].

Definition poll_ok : bool :=
  forallb (fun t => match assoc (fst t) cpp_bodies with
                    | Some b => body_eqb b (snd t)
                    | None => false end) poll_text.

(* nothing else is defined: the generated list is exactly error_code_from + the tabulated ones *)
Definition methods_ok : bool :=
  forallb method_ok method_table && poll_ok &&
  nodupb (map fst cpp_bodies) &&
  forallb (fun n => mem n ("error_code_from" :: map fst method_table ++ map fst poll_text)%list)
          (map fst cpp_bodies).

(* ------------------------------------------------------------------ process: the deleter (C15) *)

Definition deleter_ok : bool :=
  match process_ctor_inits with
  | [ (m, args) ] => String.eqb m "impl_" && list_eqb args ["reproc_new()"; "reproc_destroy"]
  | _ => false
  end &&
  match process_fields with
  | [ (m, ty) ] => String.eqb m "impl_" &&
                   String.eqb ty "std::unique_ptr<reproc_t, reproc_t *(*)(reproc_t *)>"
  | _ => false
  end &&
  match assoc "~process" process_special_members with
  | Some d => String.eqb d "default" | None => false end &&
  match assoc "process(process &&)" process_special_members with
  | Some d => String.eqb d "default" | None => false end &&
  match assoc "operator=(process &&)" process_special_members with
  | Some d => String.eqb d "default" | None => false end.

(* ------------------------------------------------------------------ for the tie: the model on a list *)

Definition category_code (c : category) : Z :=
  match c with system_category => 0%Z | generic_category => 1%Z end.
Definition error_code_table (rs : list Z) : list (Z * (Z * Z)) :=
  map (fun r => let ec := error_code_from r in (r, (category_code (fst ec), snd ec))) rs.
