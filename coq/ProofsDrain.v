(* ProofsDrain.v — the string sink (drain.c sink_string) over explicit buffers. *)
From Verif Require Import LibPure.
From Coq Require Import ZArith Lia List Bool.
Import ListNotations.
Local Open Scope Z_scope.

Definition no_nul (s : list Z) : Prop := Forall (fun c => c <> 0) s.

Lemma c_strlen_app_nul s r : no_nul s -> c_strlen (s ++ 0 :: r) = length s.
Proof.
  induction s as [|c s IH]; intros H; cbn [app c_strlen length].
  - reflexivity.
  - inversion H as [|? ? Hc Hs]; subst. destruct (Z.eqb_spec c 0); [contradiction|]. rewrite IH by assumption. reflexivity.
Qed.

Lemma firstn_app_exact {A} (a b : list A) : firstn (length a) (a ++ b) = a.
Proof. induction a; cbn; [destruct b; reflexivity|f_equal; assumption]. Qed.

(* success: the block becomes old-string ++ chunk ++ NUL; the chunk is stored at indices
   [strlen, strlen + size) and the terminator at strlen + size = last index of the new block *)
Lemma sink_string_ok s chunk : no_nul s ->
  sink_string (Some (s ++ [0])) chunk true = (0, Some (s ++ chunk ++ [0])).
Proof.
  intros H. unfold sink_string. rewrite c_strlen_app_nul by assumption. rewrite firstn_app_exact. reflexivity.
Qed.
Lemma sink_string_null chunk : sink_string None chunk true = (0, Some (chunk ++ [0])).
Proof. reflexivity. Qed.
Lemma sink_string_size s chunk b : no_nul s -> sink_string (Some (s ++ [0])) chunk true = (0, Some b) ->
  length b = (length s + length chunk + 1)%nat.
Proof. intros H E. rewrite sink_string_ok in E by assumption. injection E as <-. rewrite !app_length. cbn. lia. Qed.

(* allocation failure: ENOMEM and *string is left exactly as it was *)
Lemma sink_string_enomem cur chunk : sink_string cur chunk false = (REPROC_ENOMEM, cur).
Proof. reflexivity. Qed.

(* accumulating a sequence of NUL-free chunks yields exactly their concatenation, NUL-terminated,
   also when the string was non-empty before *)
Fixpoint sink_all (cur : option (list Z)) (chunks : list (list Z)) : option (list Z) :=
  match chunks with
  | [] => cur
  | c :: r => sink_all (snd (sink_string cur c true)) r
  end.
Lemma sink_all_spec s chunks : no_nul s -> Forall no_nul chunks ->
  sink_all (Some (s ++ [0])) chunks = Some (s ++ concat chunks ++ [0]).
Proof.
  revert s. induction chunks as [|c r IH]; intros s Hs Hc; cbn [sink_all concat].
  - reflexivity.
  - inversion Hc as [|? ? H1 H2]; subst. rewrite sink_string_ok by assumption. cbn [snd].
    replace (s ++ c ++ [0]) with ((s ++ c) ++ [0]) by (rewrite <- app_assoc; reflexivity).
    rewrite IH; [|apply Forall_app; split; assumption|assumption].
    rewrite <- !app_assoc. reflexivity.
Qed.
Lemma sink_all_null_spec chunks : Forall no_nul chunks -> chunks <> [] ->
  sink_all None chunks = Some (concat chunks ++ [0]).
Proof.
  intros Hc Hne. destruct chunks as [|c r]; [contradiction|]. cbn [sink_all]. rewrite sink_string_null. cbn [snd concat].
  inversion Hc as [|? ? H1 H2]; subst.
  rewrite (sink_all_spec c r H1 H2). rewrite <- app_assoc. reflexivity.
Qed.
