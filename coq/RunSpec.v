(* RunSpec.v — C05 / C16: reproc_run_ex (new, start, drain, stop, destroy in one call) leaves the
   caller's descriptor table and heap exactly as it found them, whatever it returns, for every
   fault plan, every sink behaviour and every child behaviour. *)
From Verif Require Import Lib WorldSpec WorldSpec2 LibSpec LibSpec2 WaitSpec ParentSpec StartSpec StopSpec FdSpec HeapSpec MemSpec.
From Coq Require Import Lia.
Local Open Scope Z_scope.

Lemma hq_ext0 L L' own w : (forall id, L id = L' id) -> hq L own w -> hq L' own w.
Proof.
  intros HE (Hm & Hb & Hl & Ho & Hn & Hf). split; [exact Hm|]. split; [exact Hb|].
  split; [intros id; rewrite <- HE; apply Hl|]. split; [intros id X; rewrite <- HE; apply Ho, X|]. split; [exact Hn|].
  intros id X. rewrite <- HE. apply Hf, X.
Qed.


(* a whole run, whatever the caller's other handles own at that moment ([T], empty [own] after re-basing) *)
Lemma run_ex_fq T c fuel argv o src s w x w' :
  fqn T [] c w -> 0 <= c -> NB w ->
  reproc_run_ex fuel argv o src s w = Ret x w' -> fqn T [] c w' /\ NB w'.
Proof.
  intros H0 Hpos Hnb E. unfold reproc_run_ex in E.
  destruct (o_fork o). { apply ret_inv in E as [_ ->]. auto. }
  apply bind_inv in E as (np & w1 & E1 & E). unfold reproc_new in E1.
  apply bind_inv in E1 as (b & w1' & Ea & E1).
  pose proof (N_neutral _ _ _ _ _ _ _ (fc_heap_alloc _ _ _) H0 Ea) as H1q.
  pose proof (pc_run _ _ _ _ (pc_heap_alloc _ _ _) ltac:(apply H0) Ea) as P1.
  pose proof (NB_mono _ _ P1 Hnb) as Hnb1.
  destruct (b =? 0); apply ret_inv in E1 as [-> ->].
  { apply ret_inv in E as [_ ->]. auto. }
  assert (H1 : HN T c (rp_new b) w1').
  { split; [|exact Hnb1]. split. { unfold POWN. cbn [h_in h_out h_err Lib.h_exit rp_new]. exact H1q. }
    split; [exact Hpos|]. split; [reflexivity|]. split; [reflexivity|]. split; [intros _; repeat split|]. intros X. exfalso. apply X. reflexivity. }
  assert (Hk : forall q : rp, kp c (fun w0 : world => Crash (A := unit) crash_unmodelled w0)) by (intros _; apply kp_crash).
  apply bind_inv in E as ([r2 p2] & w2 & E2 & E). cbv beta iota in E.
  pose proof (HN_reproc_start _ _ _ _ _ _ _ _ _ _ _ H1 Hk E2) as H2.
  assert (Fin : forall p3 w3 (v : Z * sinkst), HN T c p3 w3 -> (reproc_destroy p3 ;> ret v) w3 = Ret x w' -> fqn T [] c w' /\ NB w').
  { intros p3 w3 v H3 E3. apply bind_inv in E3 as (u & w4 & E4 & E3). apply ret_inv in E3 as [_ ->].
    exact (HN_reproc_destroy _ _ _ _ _ _ H3 E4). }
  destruct (r2 <? 0); [exact (Fin _ _ _ H2 E)|].
  apply bind_inv in E as ([[r3 p3] s3] & w3 & E3 & E). cbv beta iota in E.
  pose proof (HN_reproc_drain _ _ _ _ _ _ _ _ _ _ H2 E3) as H3.
  destruct (r3 <? 0); [exact (Fin _ _ _ H3 E)|].
  apply bind_inv in E as ([r4 p4] & w4 & E4 & E). cbv beta iota in E.
  exact (Fin _ _ _ (HN_reproc_stop _ _ _ _ _ _ _ _ H3 E4) E).
Qed.
(* THE THEOREM: a whole run leaves no descriptor behind *)
Theorem run_ex_restores_descriptor_table fuel argv o src s w x w' :
  WorldSpec2.wf w -> 0 <= w_cur w -> NB w ->
  reproc_run_ex fuel argv o src s w = Ret x w' -> pr_fds (curp w') = pr_fds (curp w).
Proof.
  intros W Hpos Hnb E.
  assert (H0 : fqn (tb w) [] (w_cur w) w) by (split; [apply fq_start, W|constructor]).
  destruct (run_ex_fq _ _ _ _ _ _ _ _ _ _ H0 Hpos Hnb E) as [[Hq _] _].
  exact (fq_end _ _ _ _ Hq (fun x0 X => X)).
Qed.

(* ... and no block: the ledger is what it was, whatever else is live ([L]) *)
Lemma run_ex_hq L fuel argv o src s w x w' :
  WorldSpec2.wf w -> 0 <= w_cur w -> hq L [] w ->
  reproc_run_ex fuel argv o src s w = Ret x w' -> hq L [] w'.
Proof.
  intros W Hpos Hq0 E. unfold reproc_run_ex in E.
  destruct (o_fork o). { apply ret_inv in E as [_ ->]. exact Hq0. }
  apply bind_inv in E as (np & w1 & E1 & E). unfold reproc_new in E1.
  apply bind_inv in E1 as (b & w1' & Ea & E1).
  pose proof (pc_run _ _ _ _ (pc_heap_alloc _ _ _) W Ea) as P1.
  destruct (H_alloc _ _ _ _ _ _ _ _ Hq0 Ea) as [[-> H1]|[Hnz H1]].
  { change (0 =? 0) with true in E1. cbv iota in E1. apply ret_inv in E1 as [-> ->]. apply ret_inv in E as [_ ->]. exact H1. }
  destruct (Z.eqb_spec b 0); [contradiction|]. apply ret_inv in E1 as [-> ->].
  assert (C1 : w_cur w1' = w_cur w) by apply P1.
  assert (Lb : L b = false). { destruct H1 as (_ & _ & _ & Ho & _). apply (Ho b). cbn. rewrite Z.eqb_refl. reflexivity. }
  pose proof (hq_absorb _ _ _ H1) as H1'. set (L' := fun id => L id || (id =? b)) in *.
  assert (Hk : forall q : rp, kp (w_cur w1') (fun w0 : world => Crash (A := unit) crash_unmodelled w0)) by (intros _; apply kp_crash).
  assert (Hh : forall q : rp, hk true (fun w0 : world => Crash (A := unit) crash_unmodelled w0)) by (intros _; apply hk_crash).
  apply bind_inv in E as ([r2 p2] & w2 & E2 & E). cbv beta iota in E.
  pose proof (reproc_start_hq _ _ _ _ _ _ _ _ _ _ ltac:(apply P1) ltac:(rewrite C1; exact Hpos) H1' Hk Hh E2) as H2.
  pose proof (post_reproc_start_blk _ _ _ _ _ _ _ _ E2) as B2. cbn [snd h_blk rp_new] in B2.
  assert (Fin : forall p3 w3 (v : Z * sinkst), hq L' [] w3 -> h_blk p3 = b -> (reproc_destroy p3 ;> ret v) w3 = Ret x w' -> hq L [] w').
  { intros p3 w3 v H3 B3 E3. apply bind_inv in E3 as (u & w4 & E4 & E3). apply ret_inv in E3 as [_ ->].
    pose proof (O_reproc_destroy _ _ _ _ _ H3 ltac:(rewrite B3; unfold L'; rewrite Z.eqb_refl; apply orb_true_r) ltac:(rewrite B3; exact Hnz) E4) as H4.
    eapply hq_ext0; [|exact H4]. intros id. cbn beta. rewrite B3. unfold L'.
    destruct (Z.eqb_spec id b) as [->|]; cbn [negb]; [rewrite Lb; reflexivity|]. rewrite orb_false_r, andb_true_r. reflexivity. }
  destruct (r2 <? 0); [exact (Fin _ _ _ H2 B2 E)|].
  apply bind_inv in E as ([[r3 p3] s3] & w3 & E3 & E). cbv beta iota in E.
  destruct (O_reproc_drain _ _ _ _ _ _ _ _ _ _ H2 E3) as [H3 B3].
  destruct (r3 <? 0); [refine (Fin _ _ _ H3 _ E); congruence|].
  apply bind_inv in E as ([r4 p4] & w4 & E4 & E). cbv beta iota in E.
  pose proof (O_reproc_stop _ _ _ _ _ _ _ H3 E4) as H4. pose proof (post_reproc_stop_blk _ _ _ _ _ E4) as B4. cbn [snd] in B4.
  refine (Fin _ _ _ H4 _ E). congruence.
Qed.
Theorem run_ex_releases_memory fuel argv o src s w x w' :
  WorldSpec2.wf w -> 0 <= w_cur w -> w_cur w = w_main w -> 0 < w_next_blk w ->
  (forall id, w_next_blk w <= id -> heap_live id w = false) ->
  reproc_run_ex fuel argv o src s w = Ret x w' -> forall id, heap_live id w' = heap_live id w.
Proof.
  intros W Hpos Hmain Hnb Hhw E.
  exact (hq_end _ _ (run_ex_hq _ _ _ _ _ _ _ _ _ W Hpos (hq_start w Hmain Hnb Hhw) E)).
Qed.
