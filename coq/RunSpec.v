(* RunSpec.v — C05 / C16: reproc_run_ex (new, start, drain, stop, destroy in one call) leaves the
   caller's descriptor table and heap exactly as it found them, whatever it returns, for every
   fault plan, every sink behaviour and every child behaviour. *)
From Verif Require Import Lib WorldSpec WorldSpec2 LibSpec LibSpec2 WaitSpec ParentSpec StartSpec StopSpec FdSpec HeapSpec MemSpec.
From Coq Require Import Lia.
Local Open Scope Z_scope.

Lemma HN_drain_loop T c fuel : forall p s w r p' s' w', HN T c p w -> drain_loop fuel p s w = Ret (r, p', s') w' -> HN T c p' w'.
Proof.
  induction fuel as [|f IH]; intros p s w r p' s' w' H E; cbn [drain_loop] in E; [discriminate|].
  apply bind_inv in E as ([r1 evs] & w1 & E1 & E). cbv beta iota in E.
  pose proof (HN_step _ _ _ _ _ _ (HI_neutral _ _ _ _ _ _ _ (fc_reproc_poll _ _) (proj1 H) E1) (nk_run _ _ _ _ (nk_reproc_poll _ _) ltac:(apply H) E1) H) as H1.
  destruct (r1 <? 0). { apply ret_inv in E as [E ->]. injection E as _ -> _. exact H1. }
  cbv zeta in E. destruct (has_bit _ REPROC_EVENT_DEADLINE). { apply ret_inv in E as [E ->]. injection E as _ -> _. exact H1. }
  apply bind_inv in E as ([[r2 rs] p2] & w2 & E2 & E). cbv beta iota in E.
  pose proof (HN_step _ _ _ _ _ _ (HI_reproc_read _ _ _ _ _ _ _ _ _ _ _ (proj1 H1) E2) (nk_run _ _ _ _ (nk_reproc_read _ _ _ _) ltac:(apply H1) E2) H1) as H2.
  destruct ((r2 <? 0) && negb (r2 =? REPROC_EPIPE)). { apply ret_inv in E as [E ->]. injection E as _ -> _. exact H2. }
  cbv zeta in E. destruct (sink_call _ _ _ _ s) as [v s2].
  destruct (negb (v =? 0)). { apply ret_inv in E as [E ->]. injection E as _ -> _. exact H2. }
  exact (IH _ _ _ _ _ _ _ H2 E).
Qed.
Lemma HN_reproc_drain T c fuel p s w r p' s' w' : HN T c p w -> reproc_drain fuel p s w = Ret (r, p', s') w' -> HN T c p' w'.
Proof.
  intros H E. unfold reproc_drain in E. destruct (sink_call 0 _ _ _ s) as [v s1].
  destruct (negb (v =? 0)). { apply ret_inv in E as [E ->]. injection E as _ -> _. exact H. }
  destruct (sink_call 1 _ _ _ s1) as [v2 s2].
  destruct (negb (v2 =? 0)). { apply ret_inv in E as [E ->]. injection E as _ -> _. exact H. }
  exact (HN_drain_loop _ _ _ _ _ _ _ _ _ _ H E).
Qed.
Lemma O_drain_loop L own fuel : forall p s w r p' s' w', hq L own w -> drain_loop fuel p s w = Ret (r, p', s') w' -> hq L own w' /\ h_blk p' = h_blk p.
Proof.
  induction fuel as [|f IH]; intros p s w r p' s' w' H E; cbn [drain_loop] in E; [discriminate|].
  apply bind_inv in E as ([r1 evs] & w1 & E1 & E). cbv beta iota in E.
  pose proof (O_reproc_poll _ _ _ _ _ _ _ H E1) as H1.
  destruct (r1 <? 0). { apply ret_inv in E as [E ->]. injection E as _ -> _. auto. }
  cbv zeta in E. destruct (has_bit _ REPROC_EVENT_DEADLINE). { apply ret_inv in E as [E ->]. injection E as _ -> _. auto. }
  apply bind_inv in E as ([[r2 rs] p2] & w2 & E2 & E). cbv beta iota in E.
  pose proof (H_neutral _ _ _ _ _ _ (hk_reproc_read false _ _ _ _) H1 E2) as H2.
  pose proof (post_reproc_read_blk _ _ _ _ _ _ _ E2) as B2. cbn [snd] in B2.
  destruct ((r2 <? 0) && negb (r2 =? REPROC_EPIPE)). { apply ret_inv in E as [E ->]. injection E as _ -> _. auto. }
  cbv zeta in E. destruct (sink_call _ _ _ _ s) as [v s2].
  destruct (negb (v =? 0)). { apply ret_inv in E as [E ->]. injection E as _ -> _. auto. }
  destruct (IH _ _ _ _ _ _ _ H2 E) as [A B]. split; [exact A|congruence].
Qed.
Lemma O_reproc_drain L own fuel p s w r p' s' w' : hq L own w -> reproc_drain fuel p s w = Ret (r, p', s') w' -> hq L own w' /\ h_blk p' = h_blk p.
Proof.
  intros H E. unfold reproc_drain in E. destruct (sink_call 0 _ _ _ s) as [v s1].
  destruct (negb (v =? 0)). { apply ret_inv in E as [E ->]. injection E as _ -> _. auto. }
  destruct (sink_call 1 _ _ _ s1) as [v2 s2].
  destruct (negb (v2 =? 0)). { apply ret_inv in E as [E ->]. injection E as _ -> _. auto. }
  exact (O_drain_loop _ _ _ _ _ _ _ _ _ _ H E).
Qed.

(* THE THEOREM: a whole run leaves no descriptor behind *)
Theorem run_ex_restores_descriptor_table fuel argv o src s w x w' :
  WorldSpec2.wf w -> 0 <= w_cur w -> NB w ->
  reproc_run_ex fuel argv o src s w = Ret x w' -> pr_fds (curp w') = pr_fds (curp w).
Proof.
  intros W Hpos Hnb E. unfold reproc_run_ex in E.
  destruct (o_fork o). { apply ret_inv in E as [_ ->]. reflexivity. }
  apply bind_inv in E as (np & w1 & E1 & E). unfold reproc_new in E1.
  apply bind_inv in E1 as (b & w1' & Ea & E1).
  pose proof (fc_run _ _ _ _ (fc_heap_alloc _ _ _) W Ea) as (W1 & C1 & T1).
  pose proof (pc_run _ _ _ _ (pc_heap_alloc _ _ _) W Ea) as P1.
  change (pr_fds (curp w)) with (tb w). rewrite <- T1.
  destruct (b =? 0); apply ret_inv in E1 as [-> ->].
  { apply ret_inv in E as [_ ->]. reflexivity. }
  assert (H1 : HN (tb w1') (w_cur w1') (rp_new b) w1').
  { apply HN_fresh; [exact W1|rewrite C1; exact Hpos|exact (NB_mono _ _ P1 Hnb)|apply fresh_rp_new]. }
  assert (Hk : forall q : rp, kp (w_cur w1') (fun w0 : world => Crash (A := unit) crash_unmodelled w0)) by (intros _; apply kp_crash).
  apply bind_inv in E as ([r2 p2] & w2 & E2 & E). cbv beta iota in E.
  pose proof (HN_reproc_start _ _ _ _ _ _ _ _ _ _ _ H1 Hk E2) as H2.
  assert (Fin : forall p3 w3 (v : Z * sinkst), HN (tb w1') (w_cur w1') p3 w3 -> (reproc_destroy p3 ;> ret v) w3 = Ret x w' -> pr_fds (curp w') = tb w1').
  { intros p3 w3 v H3 E3. apply bind_inv in E3 as (u & w4 & E4 & E3). apply ret_inv in E3 as [_ ->].
    exact (reproc_destroy_restores _ _ _ _ _ _ (proj1 H3) E4). }
  destruct (r2 <? 0); [exact (Fin _ _ _ H2 E)|].
  apply bind_inv in E as ([[r3 p3] s3] & w3 & E3 & E). cbv beta iota in E.
  pose proof (HN_reproc_drain _ _ _ _ _ _ _ _ _ _ H2 E3) as H3.
  destruct (r3 <? 0); [exact (Fin _ _ _ H3 E)|].
  apply bind_inv in E as ([r4 p4] & w4 & E4 & E). cbv beta iota in E.
  exact (Fin _ _ _ (HN_reproc_stop _ _ _ _ _ _ _ _ H3 E4) E).
Qed.

(* ... and no block *)
Theorem run_ex_releases_memory fuel argv o src s w x w' :
  WorldSpec2.wf w -> 0 <= w_cur w -> w_cur w = w_main w -> 0 < w_next_blk w ->
  (forall id, w_next_blk w <= id -> heap_live id w = false) ->
  reproc_run_ex fuel argv o src s w = Ret x w' -> forall id, heap_live id w' = heap_live id w.
Proof.
  intros W Hpos Hmain Hnb Hhw E. unfold reproc_run_ex in E.
  destruct (o_fork o). { apply ret_inv in E as [_ ->]. reflexivity. }
  set (L := fun id => heap_live id w).
  pose proof (hq_start w Hmain Hnb Hhw) as Hq0. fold L in Hq0.
  apply bind_inv in E as (np & w1 & E1 & E). unfold reproc_new in E1.
  apply bind_inv in E1 as (b & w1' & Ea & E1).
  pose proof (pc_run _ _ _ _ (pc_heap_alloc _ _ _) W Ea) as P1.
  destruct (H_alloc _ _ _ _ _ _ _ _ Hq0 Ea) as [[-> H1]|[Hnz H1]].
  { change (0 =? 0) with true in E1. cbv iota in E1. apply ret_inv in E1 as [-> ->]. apply ret_inv in E as [_ ->]. exact (hq_end _ _ H1). }
  destruct (Z.eqb_spec b 0); [contradiction|]. apply ret_inv in E1 as [-> ->].
  assert (C1 : w_cur w1' = w_cur w) by apply P1.
  assert (Lb : L b = false). { destruct H1 as (_ & _ & _ & Ho & _). apply (Ho b). cbn. rewrite Z.eqb_refl. reflexivity. }
  pose proof (hq_absorb _ _ _ H1) as H1'. set (L' := fun id => L id || (id =? b)) in *.
  assert (Hk : forall q : rp, kp (w_cur w1') (fun w0 : world => Crash (A := unit) crash_unmodelled w0)) by (intros _; apply kp_crash).
  assert (Hh : forall q : rp, hk true (fun w0 : world => Crash (A := unit) crash_unmodelled w0)) by (intros _; apply hk_crash).
  apply bind_inv in E as ([r2 p2] & w2 & E2 & E). cbv beta iota in E.
  pose proof (reproc_start_hq _ _ _ _ _ _ _ _ _ _ ltac:(apply P1) ltac:(rewrite C1; exact Hpos) H1' Hk Hh E2) as H2.
  pose proof (post_reproc_start_blk _ _ _ _ _ _ _ _ E2) as B2. cbn [snd h_blk rp_new] in B2.
  assert (Fin : forall p3 w3 (v : Z * sinkst), hq L' [] w3 -> h_blk p3 = b -> (reproc_destroy p3 ;> ret v) w3 = Ret x w' -> forall id, heap_live id w' = heap_live id w).
  { intros p3 w3 v H3 B3 E3. apply bind_inv in E3 as (u & w4 & E4 & E3). apply ret_inv in E3 as [_ ->].
    pose proof (O_reproc_destroy _ _ _ _ _ H3 ltac:(rewrite B3; unfold L'; rewrite Z.eqb_refl; apply orb_true_r) ltac:(rewrite B3; exact Hnz) E4) as H4.
    intros id. rewrite (hq_end _ _ H4 id), B3. unfold L'. fold (L id).
    destruct (Z.eqb_spec id b) as [->|]; cbn [negb]; [rewrite Lb; reflexivity|]. rewrite orb_false_r, andb_true_r. reflexivity. }
  destruct (r2 <? 0); [exact (Fin _ _ _ H2 B2 E)|].
  apply bind_inv in E as ([[r3 p3] s3] & w3 & E3 & E). cbv beta iota in E.
  destruct (O_reproc_drain _ _ _ _ _ _ _ _ _ _ H2 E3) as [H3 B3].
  destruct (r3 <? 0); [refine (Fin _ _ _ H3 _ E); congruence|].
  apply bind_inv in E as ([r4 p4] & w4 & E4 & E). cbv beta iota in E.
  pose proof (O_reproc_stop _ _ _ _ _ _ _ H3 E4) as H4. pose proof (post_reproc_stop_blk _ _ _ _ _ E4) as B4. cbn [snd] in B4.
  refine (Fin _ _ _ H4 _ E). congruence.
Qed.
