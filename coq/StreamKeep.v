(* StreamKeep.v — C02: collecting the status does not touch the streams.  reproc_wait and reproc_stop
   (and so every wait inside a stop sequence) leave the handle's three stream ends and the stored
   child ends exactly as they were: output the child wrote before it exited stays readable after
   the status has been collected. *)
From Verif Require Import Base World Sys LibPure Lib LibSpec2.
From Coq Require Import Lia.
Local Open Scope Z_scope.

Definition same_streams (p p' : rp) : Prop :=
  h_in p' = h_in p /\ h_out p' = h_out p /\ h_err p' = h_err p /\ h_cout p' = h_cout p /\ h_cerr p' = h_cerr p
  /\ h_nonblocking p' = h_nonblocking p.

Lemma same_streams_refl p : same_streams p p.
Proof. unfold same_streams. repeat split. Qed.
Lemma same_streams_trans p q r : same_streams p q -> same_streams q r -> same_streams p r.
Proof. unfold same_streams. intros (a1&a2&a3&a4&a5&a6) (b1&b2&b3&b4&b5&b6). repeat split; congruence. Qed.

Lemma wait_keeps_streams p t : post (reproc_wait p t) (fun res => same_streams p (snd res)).
Proof.
  unfold reproc_wait.
  destruct (h_status p =? STATUS_IN_CHILD); [apply post_ret, same_streams_refl|].
  destruct (h_status p =? STATUS_NOT_STARTED); [apply post_ret, same_streams_refl|].
  destruct (0 <=? h_status p); [apply post_ret, same_streams_refl|].
  apply post_bind_any. intros t0. apply post_bind_any. intros [r u].
  destruct (r <=? 0); [apply post_ret, same_streams_refl|].
  apply post_bind_any. intros r1. destruct (r1 <? 0); [apply post_ret, same_streams_refl|].
  apply post_bind_any. intros x. apply post_ret. cbn. unfold same_streams. repeat split.
Qed.

Lemma stop_loop_keeps_streams acts : forall p r, post (stop_loop acts p r) (fun res => same_streams p (snd res)).
Proof.
  induction acts as [|a rest IH]; intros p r; cbn [stop_loop]; [apply post_ret, same_streams_refl|].
  assert (Hstep : forall (act : MW Z),
    post (let* r0 := act in
          if r0 <? 0 then ret (r0, p) else
          let* '(r1, p1) := reproc_wait p (sa_timeout a) in
          if negb (r1 =? REPROC_ETIMEDOUT) then ret (r1, p1) else stop_loop rest p1 r1)
         (fun res => same_streams p (snd res))).
  { intros act. apply post_bind_any. intros r0. destruct (r0 <? 0); [apply post_ret, same_streams_refl|].
    eapply post_bind; [apply wait_keeps_streams|]. intros [r1 p1] Hs. cbn in Hs.
    destruct (negb (r1 =? REPROC_ETIMEDOUT)); [apply post_ret; exact Hs|].
    eapply post_weaken; [|apply IH]. intros res Hr. eapply same_streams_trans; [exact Hs|exact Hr]. }
  destruct (stop_action_kind (sa_action a)); [apply IH|apply Hstep..].
Qed.

Lemma stop_keeps_streams p a : post (reproc_stop p a) (fun res => same_streams p (snd res)).
Proof.
  unfold reproc_stop.
  destruct (h_status p =? STATUS_IN_CHILD); [apply post_ret, same_streams_refl|].
  destruct (h_status p =? STATUS_NOT_STARTED); [apply post_ret, same_streams_refl|].
  apply stop_loop_keeps_streams.
Qed.
