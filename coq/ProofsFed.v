(* ProofsFed.v — find_earliest_deadline (reproc.c:111-140) as a pure function of the deadlines
   when every clock reading of the loop is the same instant n, and its specification. *)
From Verif Require Import LibPure ProofsPure.
From Coq Require Import ZArith Lia List Bool.
Import ListNotations.
Local Open Scope Z_scope.

(* sources: None = no process; Some d = a process with absolute deadline d (-1 = none) *)
Fixpoint fed_pure (n : Z) (srcs : list (option Z)) (i earliest mn : Z) : Z :=
  match srcs with
  | [] => earliest
  | None :: r => fed_pure n r (i + 1) earliest mn
  | Some d :: r =>
      let cur := expiry_pure REPROC_INFINITE d n in
      if cur =? REPROC_DEADLINE then i
      else if cur =? REPROC_INFINITE then fed_pure n r (i + 1) earliest mn
      else if (mn =? REPROC_INFINITE) || (cur <? mn) then fed_pure n r (i + 1) i cur
      else fed_pure n r (i + 1) earliest mn
  end.

Definition has_deadline (s : option Z) : Prop := exists d, s = Some d /\ d <> REPROC_INFINITE.
Definition expired (n : Z) (s : option Z) : Prop := exists d, s = Some d /\ d <> REPROC_INFINITE /\ d <= n.
Definition remaining (n : Z) (s : option Z) : Z := match s with Some d => d - n | None => 0 end.

Lemma cur_cases n d :
  let cur := expiry_pure REPROC_INFINITE d n in
  (d = REPROC_INFINITE /\ cur = REPROC_INFINITE) \/
  (d <> REPROC_INFINITE /\ d <= n /\ cur = REPROC_DEADLINE) \/
  (d <> REPROC_INFINITE /\ n < d /\ cur = d - n /\ 0 < cur).
Proof.
  unfold expiry_pure, REPROC_INFINITE, REPROC_DEADLINE. rewrite !Z.eqb_refl. cbn [andb].
  destruct (Z.eqb_spec d (-1)); [left; auto|].
  destruct (Z.leb_spec d n); [right; left; auto|].
  right; right. cbn zeta. repeat split; lia.
Qed.

(* generalised invariant: [earliest]/[mn] summarise the prefix already seen (offset i) *)
Lemma fed_pure_spec n : forall srcs i earliest mn,
  (forall s, In s srcs -> ~ expired n s) ->
  0 <= i -> (mn = REPROC_INFINITE \/ 0 < mn) ->
  let k := fed_pure n srcs i earliest mn in
  (* either the summary of the prefix survives ... *)
  (k = earliest /\ (forall j s, nth_error srcs j = Some s -> has_deadline s -> mn <> REPROC_INFINITE /\ mn <= remaining n s)) \/
  (* ... or k points into srcs at a source with a deadline whose remaining time is minimal *)
  (exists j s, k = i + Z.of_nat j /\ nth_error srcs j = Some s /\ has_deadline s /\
               (mn = REPROC_INFINITE \/ remaining n s < mn) /\
               forall j' s', nth_error srcs j' = Some s' -> has_deadline s' -> remaining n s <= remaining n s').
Proof.
  induction srcs as [|s r IH]; intros i earliest mn Hne Hi Hmn; cbn [fed_pure].
  - left. split; [reflexivity|]. intros j s H. destruct j; discriminate.
  - assert (Hne' : forall s0, In s0 r -> ~ expired n s0) by (intros s0 H0; apply Hne; right; exact H0).
    destruct s as [d|].
    2:{ specialize (IH (i + 1) earliest mn Hne' ltac:(lia) Hmn). cbn zeta in IH.
        destruct IH as [[Hk Hall]|(j & s & Hk & Hn & Hd & Hlt & Hmin)].
        - left. split; [exact Hk|]. intros j s Hn Hd. destruct j; [cbn in Hn; injection Hn as <-; destruct Hd as (d & E & _); discriminate|].
          apply (Hall j s Hn Hd).
        - right. exists (S j), s. split; [lia|]. split; [exact Hn|]. split; [exact Hd|]. split; [exact Hlt|].
          intros j' s' Hn' Hd'. destruct j'; [cbn in Hn'; injection Hn' as <-; destruct Hd' as (d & E & _); discriminate|].
          apply (Hmin j' s' Hn' Hd'). }
    pose proof (cur_cases n d) as Hc. cbn zeta in Hc.
    destruct Hc as [[Hd Hcur]|[(Hd & Hle & Hcur)|(Hd & Hlt & Hcur & Hpos)]].
    + (* no deadline: skipped *)
      rewrite Hcur. unfold REPROC_INFINITE, REPROC_DEADLINE.
      change (-1 =? -2) with false. change (-1 =? -1) with true. cbv iota.
      specialize (IH (i + 1) earliest mn Hne' ltac:(lia) Hmn). cbn zeta in IH.
      destruct IH as [[Hk Hall]|(j & s & Hk & Hn & Hds & Hlt & Hmin)].
      * left. split; [exact Hk|]. intros j s Hn Hds. destruct j; [cbn in Hn; injection Hn as <-; destruct Hds as (d' & E & Hne0); injection E as <-; contradiction|].
        apply (Hall j s Hn Hds).
      * right. exists (S j), s. split; [lia|]. split; [exact Hn|]. split; [exact Hds|]. split; [exact Hlt|].
        intros j' s' Hn' Hd'. destruct j'; [cbn in Hn'; injection Hn' as <-; destruct Hd' as (d' & E & Hne0); injection E as <-; contradiction|].
        apply (Hmin j' s' Hn' Hd').
    + (* expired: excluded by hypothesis *)
      exfalso. apply (Hne (Some d)); [left; reflexivity|]. exists d. auto.
    + (* a live deadline *)
      rewrite Hcur. unfold REPROC_DEADLINE, REPROC_INFINITE in *.
      destruct (Z.eqb_spec (d - n) (-2)); [lia|]. destruct (Z.eqb_spec (d - n) (-1)); [lia|].
      destruct (Z.eqb_spec mn (-1)) as [Emn|Emn]; cbn [orb].
      * (* first deadline seen *)
        specialize (IH (i + 1) i (d - n) Hne' ltac:(lia) ltac:(right; lia)). cbn zeta in IH.
        destruct IH as [[Hk Hall]|(j & s & Hk & Hn & Hds & Hlt2 & Hmin)].
        -- right. exists O, (Some d). split; [lia|]. split; [reflexivity|]. split; [exists d; auto|]. split; [left; exact Emn|].
           intros j' s' Hn' Hd'. destruct j'; [cbn in Hn'; injection Hn' as <-; cbn; lia|].
           destruct (Hall j' s' Hn' Hd') as [_ Hle]. cbn [remaining]. lia.
        -- right. exists (S j), s. split; [lia|]. split; [exact Hn|]. split; [exact Hds|]. split; [left; exact Emn|].
           intros j' s' Hn' Hd'. destruct j'; [cbn in Hn'; injection Hn' as <-; cbn [remaining]; destruct Hlt2; lia|].
           apply (Hmin j' s' Hn' Hd').
      * destruct (Z.ltb_spec (d - n) mn) as [Hlt2|Hge].
        -- specialize (IH (i + 1) i (d - n) Hne' ltac:(lia) ltac:(right; lia)). cbn zeta in IH.
           destruct IH as [[Hk Hall]|(j & s & Hk & Hn & Hds & Hlt3 & Hmin)].
           ++ right. exists O, (Some d). split; [lia|]. split; [reflexivity|]. split; [exists d; auto|]. split; [right; cbn; lia|].
              intros j' s' Hn' Hd'. destruct j'; [cbn in Hn'; injection Hn' as <-; cbn; lia|].
              destruct (Hall j' s' Hn' Hd') as [_ Hle]. cbn [remaining]. lia.
           ++ right. exists (S j), s. split; [lia|]. split; [exact Hn|]. split; [exact Hds|].
              split; [right; destruct Hlt3; lia|].
              intros j' s' Hn' Hd'. destruct j'; [cbn in Hn'; injection Hn' as <-; cbn [remaining]; destruct Hlt3; lia|].
              apply (Hmin j' s' Hn' Hd').
        -- specialize (IH (i + 1) earliest mn Hne' ltac:(lia) Hmn). cbn zeta in IH.
           destruct IH as [[Hk Hall]|(j & s & Hk & Hn & Hds & Hlt3 & Hmin)].
           ++ left. split; [exact Hk|]. intros j s Hn Hds. destruct j.
              ** cbn in Hn. injection Hn as <-. cbn [remaining]. split; lia.
              ** apply (Hall j s Hn Hds).
           ++ right. exists (S j), s. split; [lia|]. split; [exact Hn|]. split; [exact Hds|]. split; [exact Hlt3|].
              intros j' s' Hn' Hd'. destruct j'; [cbn in Hn'; injection Hn' as <-; cbn [remaining]; destruct Hlt3; lia|].
              apply (Hmin j' s' Hn' Hd').
Qed.

(* top level, no deadline expired: if any source has a deadline the result points at one whose
   deadline is the earliest — whatever the order of the sources and wherever the process-less
   and deadline-less ones sit *)
Theorem fed_pure_earliest n srcs :
  (forall s, In s srcs -> ~ expired n s) -> (exists s, In s srcs /\ has_deadline s) ->
  exists j s, fed_pure n srcs 0 0 REPROC_INFINITE = Z.of_nat j /\ nth_error srcs j = Some s /\ has_deadline s /\
              forall j' s', nth_error srcs j' = Some s' -> has_deadline s' -> remaining n s <= remaining n s'.
Proof.
  intros Hne (s0 & Hin & Hd0).
  destruct (fed_pure_spec n srcs 0 0 REPROC_INFINITE Hne ltac:(lia) ltac:(left; reflexivity)) as [[_ Hall]|(j & s & Hk & Hn & Hd & _ & Hmin)].
  - exfalso. apply In_nth_error in Hin. destruct Hin as [j Hj]. destruct (Hall j s0 Hj Hd0) as [Hc _]. apply Hc. reflexivity.
  - exists j, s. split; [lia|]. auto.
Qed.

(* an expired deadline wins at once: the result is the FIRST source whose deadline has expired,
   provided no earlier source... (sources before it are unexpired by definition of "first") *)
Lemma fed_pure_expired_first n : forall pre d post i earliest mn,
  (forall s, In s pre -> ~ expired n s) -> d <> REPROC_INFINITE -> d <= n ->
  fed_pure n (pre ++ Some d :: post) i earliest mn = i + Z.of_nat (length pre).
Proof.
  induction pre as [|s pre IH]; intros d post i earliest mn Hne Hd Hle; cbn [app fed_pure length].
  - destruct (cur_cases n d) as [[E _]|[(_ & _ & Hc)|(_ & Hlt & _)]]; [contradiction| |lia].
    cbn zeta in Hc. rewrite Hc. unfold REPROC_DEADLINE. change (-2 =? -2) with true. cbv iota. lia.
  - assert (Hne' : forall s0, In s0 pre -> ~ expired n s0) by (intros s0 H0; apply Hne; right; exact H0).
    destruct s as [d'|].
    + pose proof (cur_cases n d') as Hc. cbn zeta in Hc.
      destruct Hc as [[Hd' Hcur]|[(Hd' & Hle' & Hcur)|(Hd' & Hlt & Hcur & Hpos)]].
      * rewrite Hcur. unfold REPROC_INFINITE, REPROC_DEADLINE.
        change (-1 =? -2) with false. change (-1 =? -1) with true. cbv iota. rewrite IH by assumption. lia.
      * exfalso. apply (Hne (Some d')); [left; reflexivity|]. exists d'. auto.
      * rewrite Hcur. unfold REPROC_DEADLINE, REPROC_INFINITE in *.
        destruct (Z.eqb_spec (d' - n) (-2)); [lia|]. destruct (Z.eqb_spec (d' - n) (-1)); [lia|].
        destruct ((mn =? -1) || (d' - n <? mn)); rewrite IH by assumption; lia.
    + rewrite IH by assumption. lia.
Qed.
