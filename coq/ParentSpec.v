(* ParentSpec.v — the parent side of start, for EVERY fault plan.
   1. [kp k m]: library code run by some other process never touches the record of process k
      (this is what makes the forked child's whole activity invisible in the parent's record);
   2. [pc m]: a call made by the current process preserves its signal dispositions, working
      directory and environment, and its signal mask;
   3. process_fork / process_start restore the caller's state on every return path. *)
From Verif Require Import Lib WorldSpec WorldSpec2 LibSpec WaitSpec.
From Coq Require Import Lia.
Local Open Scope Z_scope.

(* ================= 1. the frame of code run in another process ================= *)
Definition kpost (k : Z) (w w' : world) : Prop :=
  keeps k w w' /\ w_cur w' = w_cur w /\ w_next_blk w <= w_next_blk w' /\ exists l, w_trace w' = l ++ w_trace w.
Lemma kpost_refl k w : kpost k w w.
Proof. split; [apply keeps_refl|]. split; [reflexivity|]. split; [lia|exists []; reflexivity]. Qed.
Lemma kpost_trans k w1 w2 w3 : kpost k w1 w2 -> kpost k w2 w3 -> kpost k w1 w3.
Proof.
  intros (K2 & C2 & N2 & l2 & T2) (K3 & C3 & N3 & l3 & T3). split; [eapply keeps_trans; eassumption|]. split; [congruence|].
  split; [lia|]. exists (l3 ++ l2). rewrite T3, T2, app_assoc. reflexivity.
Qed.
Lemma keeps_same_procs k w w' : w_procs w' = w_procs w -> w_next_pid w' = w_next_pid w -> keeps k w w'.
Proof. intros Hp Hn. unfold keeps. rewrite Hp, Hn. repeat split; auto; lia. Qed.
Lemma kpost_same k w w' : w_procs w' = w_procs w -> w_next_pid w' = w_next_pid w -> w_cur w' = w_cur w ->
  w_next_blk w' = w_next_blk w ->
  (exists l, w_trace w' = l ++ w_trace w) -> kpost k w w'.
Proof. intros Hp Hn Hc Hb Ht. split; [apply keeps_same_procs; assumption|]. split; [assumption|]. split; [lia|assumption]. Qed.
Lemma blk_upd_proc pid f w : w_next_blk (upd_proc pid f w) = w_next_blk w.
Proof. unfold upd_proc. destruct (w_procs w !! pid); reflexivity. Qed.
Lemma cur_upd_proc pid f w : w_cur (upd_proc pid f w) = w_cur w.
Proof. unfold upd_proc. destruct (w_procs w !! pid); reflexivity. Qed.
Lemma trace_upd_proc pid f w : w_trace (upd_proc pid f w) = w_trace w.
Proof. unfold upd_proc. destruct (w_procs w !! pid); reflexivity. Qed.
Lemma kpost_upd_proc k pid f w : pid <> k -> kpost k w (upd_proc pid f w).
Proof.
  intros H. split; [apply keeps_upd_proc; exact H|]. split; [apply cur_upd_proc|]. split; [rewrite blk_upd_proc; lia|]. exists []. apply trace_upd_proc.
Qed.

Definition kp {A} (k : Z) (m : MW A) : Prop :=
  forall w, w_cur w <> k -> lib_at k w -> kpost k w (oworld (m w)).

Lemma kp_ret {A} k (a : A) : kp k (ret a).
Proof. intros w _ _. apply kpost_refl. Qed.
Lemma kp_bind {A B} k (m : MW A) (f : A -> MW B) : kp k m -> (forall a, kp k (f a)) -> kp k (bind m f).
Proof.
  intros Hm Hf w Hc L. unfold bind. specialize (Hm w Hc L).
  destruct (m w) as [a w1|w1|w1|y w1]; cbn [oworld] in *; try exact Hm.
  pose proof Hm as (K1 & C1 & _ & _).
  pose proof (Hf a w1 ltac:(congruence) (lib_at_keeps _ _ _ L K1)) as H2.
  eapply kpost_trans; eassumption.
Qed.
Lemma kp_gets {A} k (f : world -> A) : kp k (gets f).
Proof. intros w _ _. apply kpost_refl. Qed.
Lemma kp_get k : kp k get.
Proof. intros w _ _. apply kpost_refl. Qed.
Lemma kp_crash {A} k y : kp k (fun w => Crash (A := A) y w).
Proof. intros w _ _. apply kpost_refl. Qed.
Lemma kp_hang {A} k : kp k (fun w => Hang (A := A) w).
Proof. intros w _ _. apply kpost_refl. Qed.
Lemma kp_modify k f : (forall w, w_cur w <> k -> kpost k w (f w)) -> kp k (modify f).
Proof. intros H w Hc _. cbn. apply H, Hc. Qed.
Lemma kp_modify_cur k f : kp k (modify (upd_cur f)).
Proof. apply kp_modify. intros w Hc. unfold upd_cur. apply kpost_upd_proc. exact Hc. Qed.
Lemma kp_log k c args sargs r outs b : kp k (log c args sargs r outs b).
Proof. apply kp_modify. intros w _. apply kpost_same; try reflexivity. eexists [_]. reflexivity. Qed.
Lemma kp_set_errno k e : kp k (set_errno e).
Proof. apply kp_modify_cur. Qed.
Lemma kp_set_cur_fds k t : kp k (set_cur_fds t).
Proof. apply kp_modify_cur. Qed.
Lemma kp_get_errno k : kp k get_errno.
Proof. apply kp_gets. Qed.
Lemma kp_last_lat k : kp k last_lat.
Proof. apply kp_gets. Qed.
Lemma kp_prelude k : kp k prelude.
Proof.
  intros w Hc L. unfold prelude.
  set (w0 := w_with_calls (w_calls w + 1) w).
  assert (K0 : kpost k w w0) by (apply kpost_same; try reflexivity; exists []; reflexivity).
  destruct (advance_to _ w0) as [w2|] eqn:E; cbn [oworld]; [|exact K0].
  pose proof (keeps_advance_to k _ _ _ (lib_at_keeps _ _ _ L (proj1 K0)) E) as K.
  pose proof (flat_advance_to _ _ _ E) as F. unfold flat in F. injection F as Ft Fc _ _ _ _ _ Fb _ _.
  eapply kpost_trans; [exact K0|]. split; [exact K|]. split; [exact Fc|]. split; [rewrite Fb; apply Z.le_refl|]. exists []. exact Ft.
Qed.
Lemma kp_fail k c a s e : kp k (fail c a s e).
Proof. unfold fail. apply kp_bind; [apply kp_set_errno|]. intros _. apply kp_bind; [apply kp_log|]. intros _. apply kp_ret. Qed.
Lemma kp_failb k c a s e : kp k (failb c a s e).
Proof.
  unfold failb. apply kp_bind; [apply kp_last_lat|]. intros l. apply kp_bind; [apply kp_set_errno|]. intros _.
  apply kp_bind; [apply kp_log|]. intros _. apply kp_ret.
Qed.
Lemma kp_done k c a s r o : kp k (done c a s r o).
Proof. unfold done. apply kp_bind; [apply kp_log|]. intros _. apply kp_ret. Qed.

Ltac kp_step :=
  lazymatch goal with
  | |- kp _ last_lat => apply kp_last_lat
  | |- kp _ (bind _ _) => apply kp_bind; [|intros ?]
  | |- kp _ (ret _) => apply kp_ret
  | |- kp _ prelude => apply kp_prelude
  | |- kp _ (fail _ _ _ _) => apply kp_fail
  | |- kp _ (failb _ _ _ _) => apply kp_failb
  | |- kp _ (done _ _ _ _ _) => apply kp_done
  | |- kp _ (log _ _ _ _ _ _) => apply kp_log
  | |- kp _ (gets _) => apply kp_gets
  | |- kp _ get => apply kp_get
  | |- kp _ get_errno => apply kp_get_errno
  | |- kp _ (set_errno _) => apply kp_set_errno
  | |- kp _ (set_cur_fds _) => apply kp_set_cur_fds
  | |- kp _ (modify (upd_cur _)) => apply kp_modify_cur
  | |- kp _ (match ?x with _ => _ end) => destruct x
  end.

(* ---- the system calls of the child side ---- *)
Lemma kp_sys_close k fd : kp k (sys_close fd).
Proof. unfold sys_close. repeat kp_step. Qed.
Lemma kp_sys_dup2 k a b : kp k (sys_dup2 a b).
Proof. unfold sys_dup2. repeat kp_step. Qed.
Lemma kp_sys_dupfd k fd m c : kp k (sys_dupfd fd m c).
Proof. unfold sys_dupfd. repeat kp_step. Qed.
Lemma kp_sys_getfd k fd : kp k (sys_getfd fd).
Proof. unfold sys_getfd. repeat kp_step. Qed.
Lemma kp_sys_setfd k fd c : kp k (sys_setfd fd c).
Proof. unfold sys_setfd. repeat kp_step. Qed.
Lemma kp_sys_sigemptyset k : kp k sys_sigemptyset.
Proof. unfold sys_sigemptyset. repeat kp_step. Qed.
Lemma kp_sys_sigfillset k : kp k sys_sigfillset.
Proof. unfold sys_sigfillset. repeat kp_step. Qed.
Lemma kp_sys_sigaction k s h : kp k (sys_sigaction s h).
Proof. unfold sys_sigaction. repeat kp_step. Qed.
Lemma kp_sys_sigmask k how ns : kp k (sys_sigmask how ns).
Proof. unfold sys_sigmask. repeat kp_step. Qed.
Lemma kp_sys_getrlimit k : kp k sys_getrlimit.
Proof. unfold sys_getrlimit. repeat kp_step. Qed.
Lemma kp_sys_chdir k d : kp k (sys_chdir d).
Proof. unfold sys_chdir. repeat kp_step. Qed.
Lemma kp_set_environ k e : kp k (set_environ e).
Proof. unfold set_environ. repeat kp_step. Qed.

Lemma kp_sys_write k fd data : kp k (sys_write fd data).
Proof.
  unfold sys_write. cbn zeta. apply kp_bind; [apply kp_prelude|]. intros [e|]; [apply kp_failb|].
  apply kp_bind; [apply kp_gets|]. intros t. destruct (t !! fd) as [d|]; [|apply kp_fail].
  destruct (f_obj d) as [q|q|a|pa a|id a]; try apply kp_fail; try apply kp_done.
  intros w Hc L.
  destruct (write_loop_frame k (Z.to_nat (runs_len data / pipe_atomic) + total_weight w * 2 + 8)%nat q (f_nonblock d) data 0 w L) as [K F].
  unfold flat in F. injection F as Ft Fc _ _ _ _ _ Fb _ _.
  assert (K1 : kpost k w (wr_world (write_loop (Z.to_nat (runs_len data / pipe_atomic) + total_weight w * 2 + 8)%nat q (f_nonblock d) data 0 w))).
  { split; [exact K|]. split; [exact Fc|]. split; [rewrite Fb; apply Z.le_refl|]. exists []. exact Ft. }
  destruct (write_loop _ q (f_nonblock d) data 0 w) as [n w1|e w1|w1|w1]; cbn [wr_world oworld] in *; try exact K1.
  - assert (H1 : kp k (log CWrite [fd; runs_len data] [] n [] (w_time w1 - w_time w);> ret n)) by (repeat kp_step).
    eapply kpost_trans; [exact K1|]. apply (H1 w1); [congruence|]. exact (lib_at_keeps _ _ _ L K).
  - assert (H1 : kp k (set_errno e;> log CWrite [fd; runs_len data] [] (-1) [] (w_time w1 - w_time w);> ret (-1))) by (repeat kp_step).
    eapply kpost_trans; [exact K1|]. apply (H1 w1); [congruence|]. exact (lib_at_keeps _ _ _ L K).
Qed.

Lemma kp_sys__exit k code : kp k (sys__exit code).
Proof.
  intros w Hc L. unfold sys__exit.
  assert (H1 : kp k (prelude;> log CExit [code] [] 0 [] 0)) by (repeat kp_step).
  specialize (H1 w Hc L).
  destruct ((prelude;> log CExit [code] [] 0 [] 0) w) as [a w1|w1|w1|y w1]; cbn [oworld] in *; try exact H1.
  eapply kpost_trans; [exact H1|]. unfold kill_proc. apply kpost_upd_proc. destruct H1 as (_ & C1 & _ & _). congruence.
Qed.

Lemma kp_sys_execvp k prog argv : kp k (sys_execvp prog argv).
Proof.
  unfold sys_execvp. apply kp_bind; [apply kp_prelude|]. intros [e|]; [apply kp_fail|].
  intros w Hc L. destruct (exec_search w _ false) as [[path script]|e].
  - cbn. eapply (kpost_trans _ _ (w_with_trace _ w)).
    + apply kpost_same; try reflexivity. eexists [_]. reflexivity.
    + unfold upd_cur. apply kpost_upd_proc. exact Hc.
  - apply kp_fail; assumption.
Qed.

Lemma kp_sys_free k id : kp k (sys_free id).
Proof.
  unfold sys_free. apply kp_bind; [apply kp_prelude|]. intros _. destruct (id =? 0); [apply kp_log|].
  apply kp_bind; [apply kp_get|]. intros w0.
  destruct (negb (in_main w0)); [apply kp_log|]. destruct (heap_live id w0); [|apply kp_log].
  apply kp_bind; [|intros _; apply kp_log]. apply kp_modify. intros w _. apply kpost_same; try reflexivity. exists []. reflexivity.
Qed.

(* ---- the library functions of the child side ---- *)
Lemma kp_mapM_ {A} k (f : A -> MW unit) l : (forall a, kp k (f a)) -> kp k (mapM_ f l).
Proof. intros Hf. induction l as [|x l IH]; cbn [mapM_]; [apply kp_ret|]. apply kp_bind; [apply Hf|]. intros _. exact IH. Qed.
Lemma kp_handle_destroy k h : kp k (handle_destroy h).
Proof. unfold handle_destroy. destruct (h =? HANDLE_INVALID); [apply kp_ret|]. apply kp_bind; [apply kp_sys_close|]. intros _. apply kp_ret. Qed.
Lemma kp_pipe_destroy k h : kp k (pipe_destroy h).
Proof. apply kp_handle_destroy. Qed.
Lemma kp_strv_free k l : kp k (strv_free l).
Proof.
  unfold strv_free. destruct l as [[arr ss]|]; [|apply kp_sys_free].
  apply kp_bind; [apply kp_mapM_; intros a; apply kp_sys_free|]. intros _. apply kp_sys_free.
Qed.
Lemma kp_signal_mask k how ns : kp k (signal_mask how ns).
Proof. unfold signal_mask. apply kp_bind; [apply kp_sys_sigmask|]. intros [e old]. apply kp_ret. Qed.
Lemma kp_get_max_fd k : kp k get_max_fd.
Proof.
  unfold get_max_fd. apply kp_bind; [apply kp_sys_getrlimit|]. intros [r soft].
  destruct (r <? 0); [apply kp_bind; [apply kp_get_errno|intros e; apply kp_ret]|].
  destruct ((soft <? 0) || (H_INT_MAX <? soft)); apply kp_ret.
Qed.
Lemma kp_reset_signals k sigs : kp k (reset_signals sigs).
Proof.
  induction sigs as [|s r IH]; cbn [reset_signals]; [apply kp_ret|].
  apply kp_bind; [apply kp_sys_sigaction|]. intros q. apply kp_bind; [apply kp_get_errno|]. intros e.
  destruct ((q <? 0) && negb (e =? EINVAL)); [apply kp_ret|exact IH].
Qed.
Lemma kp_close_one k skip i : kp k (close_one skip i).
Proof.
  unfold close_one. destruct (memZ i skip); [apply kp_ret|].
  apply kp_bind; [apply kp_sys_getfd|]. intros r. destruct (0 <=? r); [|apply kp_ret].
  apply kp_bind; [apply kp_handle_destroy|]. intros _. apply kp_ret.
Qed.
Lemma kp_handle_cloexec k h en : kp k (handle_cloexec h en).
Proof.
  unfold handle_cloexec. apply kp_bind; [apply kp_sys_getfd|]. intros r.
  destruct (r <? 0); [apply kp_bind; [apply kp_get_errno|intros e; apply kp_ret]|]. cbn zeta.
  apply kp_bind; [apply kp_sys_setfd|]. intros r2.
  destruct (r2 <? 0); [apply kp_bind; [apply kp_get_errno|intros e; apply kp_ret]|apply kp_ret].
Qed.
Lemma kp_child_move_low k l n : forall acc, kp k (child_move_low l n acc).
Proof.
  induction l as [|[fd i] r IH]; intros acc; cbn [child_move_low]; [apply kp_ret|].
  destruct (negb (fd =? i) && (0 <=? fd) && (fd <? n)); [|apply IH].
  apply kp_bind; [apply kp_sys_dupfd|]. intros q.
  destruct (q <? 0); [apply kp_bind; [apply kp_get_errno|intros e; apply kp_ret]|apply IH].
Qed.
Lemma kp_child_redirect k l : kp k (child_redirect l).
Proof.
  induction l as [|[fd i] r IH]; cbn [child_redirect]; [apply kp_ret|].
  apply kp_bind; [apply kp_sys_dup2|]. intros q.
  destruct (q <? 0); [apply kp_bind; [apply kp_get_errno|intros e; apply kp_ret]|].
  apply kp_bind; [destruct (negb (fd =? i)); apply kp_handle_cloexec|]. intros q2.
  destruct (q2 <? 0); [apply kp_ret|exact IH].
Qed.
Lemma kp_child_fail k pwr r : kp k (sys_write pwr [RLit (encode_int (- r))] ;> sys__exit 1).
Proof. apply kp_bind; [apply kp_sys_write|]. intros _. apply kp_sys__exit. Qed.

Lemma kp_start_child_part k prd pwr argv pg env o kk : kp k kk -> kp k (start_child_part prd pwr argv pg env o kk).
Proof.
  intros Hk. unfold start_child_part. cbn zeta.
  apply kp_bind; [apply kp_child_move_low|]. intros [r red].
  destruct (r <? 0); [apply kp_child_fail|].
  apply kp_bind; [apply kp_child_redirect|]. intros r2.
  destruct (r2 <? 0); [apply kp_child_fail|].
  apply kp_bind; [apply kp_handle_cloexec|]. intros r3.
  destruct (r3 <? 0); [apply kp_child_fail|].
  apply kp_bind.
  { destruct (po_wd o) as [d|]; [|apply kp_ret]. apply kp_bind; [apply kp_sys_chdir|]. intros q.
    destruct (q <? 0); [apply kp_bind; [apply kp_get_errno|intros e; apply kp_ret]|apply kp_ret]. }
  intros r4. destruct (r4 <? 0); [apply kp_child_fail|].
  apply kp_bind; [apply kp_set_environ|]. intros _.
  apply kp_bind.
  { destruct argv as [av|]; [|apply kp_ret]. apply kp_bind; [apply kp_sys_execvp|]. intros q.
    destruct (q <? 0); [apply kp_bind; [apply kp_get_errno|intros e; apply kp_ret]|apply kp_ret]. }
  intros r5. destruct (r5 <? 0); [apply kp_child_fail|].
  apply kp_bind; [apply kp_pipe_destroy|]. intros _. apply kp_bind; [apply kp_pipe_destroy|]. intros _.
  apply kp_bind; [apply kp_sys_free|]. intros _. apply kp_bind; [apply kp_strv_free|]. intros _. exact Hk.
Qed.

Lemma kp_fork_child_part k prd pwr except kk : kp k kk -> kp k (fork_child_part prd pwr except kk).
Proof.
  intros Hk. unfold fork_child_part. cbn zeta.
  assert (Herr : forall r0 : Z, kp k (let* r := (let* e := get_errno in ret (- e)) in sys_write pwr [RLit (encode_int (- r))] ;> sys__exit 1)).
  { intros _. apply kp_bind; [apply kp_bind; [apply kp_get_errno|intros e; apply kp_ret]|]. intros r. apply kp_child_fail. }
  apply kp_bind; [apply kp_sys_sigemptyset|]. intros r.
  destruct (r <? 0); [apply (Herr 0)|].
  apply kp_bind; [apply kp_reset_signals|]. intros r1.
  destruct (r1 <? 0); [apply kp_child_fail|].
  apply kp_bind; [apply kp_sys_sigemptyset|]. intros r2.
  destruct (r2 <? 0); [apply (Herr 0)|].
  apply kp_bind; [apply kp_signal_mask|]. intros [r3 old].
  destruct (r3 <? 0); [apply kp_child_fail|].
  apply kp_bind; [apply kp_get_max_fd|]. intros r4.
  destruct (r4 <? 0); [apply kp_child_fail|].
  destruct (MAX_FD_LIMIT <? r4); [apply kp_child_fail|].
  apply kp_bind; [apply kp_mapM_; intros i; apply kp_close_one|]. intros _.
  apply kp_bind; [apply kp_pipe_destroy|]. intros _. apply kp_bind; [apply kp_pipe_destroy|]. intros _. exact Hk.
Qed.

(* ================= 2. calls of the current process and its own state ================= *)
(* the part of a process record that start must leave as it found it *)
Definition same_caller (p p' : proc) : Prop :=
  pr_mask p' = pr_mask p /\ pr_disp p' = pr_disp p /\ pr_cwd p' = pr_cwd p /\ pr_env p' = pr_env p.
Lemma same_caller_refl p : same_caller p p.
Proof. repeat split. Qed.
Lemma same_caller_trans p q r : same_caller p q -> same_caller q r -> same_caller p r.
Proof. intros (A & B & C & D) (A' & B' & C' & D'). repeat split; congruence. Qed.

Definition pcpost (w w' : world) : Prop :=
  wf w' /\ w_cur w' = w_cur w /\ same_caller (curp w) (curp w') /\ (exists l, w_trace w' = l ++ w_trace w)
  /\ w_next_blk w <= w_next_blk w'.
Lemma pcpost_refl w : wf w -> pcpost w w.
Proof. intros W. split; [exact W|]. split; [reflexivity|]. split; [apply same_caller_refl|]. split; [exists []; reflexivity|lia]. Qed.
Lemma pcpost_trans w1 w2 w3 : pcpost w1 w2 -> pcpost w2 w3 -> pcpost w1 w3.
Proof.
  intros (W2 & C2 & S2 & (l2 & T2) & N2) (W3 & C3 & S3 & (l3 & T3) & N3). split; [exact W3|]. split; [congruence|].
  split; [eapply same_caller_trans; eassumption|]. split; [|lia]. exists (l3 ++ l2). rewrite T3, T2, app_assoc. reflexivity.
Qed.

Definition pc {A} (m : MW A) : Prop :=
  forall w, wf w -> match m w with Ret _ w' => pcpost w w' | _ => True end.

Lemma pc_ret {A} (a : A) : pc (ret a).
Proof. intros w W. cbn. apply pcpost_refl, W. Qed.
Lemma pc_bind {A B} (m : MW A) (f : A -> MW B) : pc m -> (forall a, pc (f a)) -> pc (bind m f).
Proof.
  intros Hm Hf w W. unfold bind. specialize (Hm w W). destruct (m w) as [a w1|w1|w1|y w1]; auto.
  specialize (Hf a w1 ltac:(apply Hm)). destruct (f a w1); auto. eapply pcpost_trans; eassumption.
Qed.
Lemma pc_gets {A} (f : world -> A) : pc (gets f).
Proof. intros w W. cbn. apply pcpost_refl, W. Qed.
Lemma pc_get : pc get.
Proof. intros w W. cbn. apply pcpost_refl, W. Qed.
Lemma pc_crash {A} y : pc (fun w => Crash (A := A) y w).
Proof. intros w W. exact I. Qed.
Lemma prelude_blk w : match prelude w with Ret _ w1 => w_next_blk w1 = w_next_blk w | _ => True end.
Proof.
  unfold prelude. cbn zeta. destruct (advance_to _ _) as [w2|] eqn:E; [|exact I].
  pose proof (flat_advance_to _ _ _ E) as F. unfold flat in F. injection F as _ _ _ _ _ _ _ Fb _ _. exact Fb.
Qed.
Lemma pc_prelude : pc prelude.
Proof.
  intros w W. pose proof (prelude_spec w W) as H. pose proof (prelude_blk w) as Hb.
  destruct (prelude w) as [f w1|w1|w1|y w1]; auto.
  destruct H as (W1 & C1 & P1 & T1 & _). split; [exact W1|]. split; [exact C1|]. split; [rewrite P1; apply same_caller_refl|].
  split; [exists []; exact T1|rewrite Hb; apply Z.le_refl].
Qed.
Lemma pc_log c args sargs r outs b : pc (log c args sargs r outs b).
Proof.
  intros w W. cbn. split; [apply wf_with_trace, W|]. split; [reflexivity|]. split; [apply same_caller_refl|].
  split; [eexists [_]; reflexivity|apply Z.le_refl].
Qed.
(* an update of the current record that touches neither its kind and state nor the caller's state *)
Definition mild (f : proc -> proc) : Prop :=
  forall p, pr_kind (f p) = pr_kind p /\ pr_state (f p) = pr_state p /\ same_caller p (f p).
Lemma pc_modify_cur f : mild f -> pc (modify (upd_cur f)).
Proof.
  intros Hf w W. cbn. split; [apply wf_upd_cur; [exact W|intros p; split; apply Hf]|].
  split; [unfold upd_cur; apply cur_upd_proc|]. split; [rewrite curp_upd_cur by exact W; apply Hf|].
  split; [exists []; unfold upd_cur; rewrite trace_upd_proc; reflexivity|unfold upd_cur; rewrite blk_upd_proc; apply Z.le_refl].
Qed.
Lemma mild_errno e : mild (pr_with_errno e).
Proof. intros p. repeat split. Qed.
Lemma mild_fds t : mild (pr_with_fds t).
Proof. intros p. repeat split. Qed.
Lemma pc_set_errno e : pc (set_errno e).
Proof. apply pc_modify_cur, mild_errno. Qed.
Lemma pc_set_cur_fds t : pc (set_cur_fds t).
Proof. apply pc_modify_cur, mild_fds. Qed.
Lemma pc_get_errno : pc get_errno.
Proof. apply pc_gets. Qed.
Lemma pc_last_lat : pc last_lat.
Proof. apply pc_gets. Qed.
Lemma pc_fail c a s e : pc (fail c a s e).
Proof. unfold fail. apply pc_bind; [apply pc_set_errno|]. intros _. apply pc_bind; [apply pc_log|]. intros _. apply pc_ret. Qed.
Lemma pc_failb c a s e : pc (failb c a s e).
Proof.
  unfold failb. apply pc_bind; [apply pc_last_lat|]. intros l. apply pc_bind; [apply pc_set_errno|]. intros _.
  apply pc_bind; [apply pc_log|]. intros _. apply pc_ret.
Qed.
Lemma pc_done c a s r o : pc (done c a s r o).
Proof. unfold done. apply pc_bind; [apply pc_log|]. intros _. apply pc_ret. Qed.
(* a world update that leaves the process table, the marker and the trace alone *)
Lemma pc_modify f : (forall w, w_procs (f w) = w_procs w /\ w_cur (f w) = w_cur w /\ w_next_pid (f w) = w_next_pid w /\ w_trace (f w) = w_trace w
                                 /\ w_next_blk w <= w_next_blk (f w)) -> pc (modify f).
Proof.
  intros H w W. cbn. destruct (H w) as (Hp & Hc & Hn & Ht & Hb).
  split. { destruct W as [Wc Wf]. split; [rewrite Hp, Hc; exact Wc|intros k; rewrite Hp, Hn; apply Wf]. }
  split; [exact Hc|]. split; [unfold curp, get_proc; rewrite Hp, Hc; apply same_caller_refl|]. split; [exists []; exact Ht|exact Hb].
Qed.
Ltac mod_ok := intros ?w; repeat split; cbn; lia.

Ltac pc_step :=
  lazymatch goal with
  | |- pc last_lat => apply pc_last_lat
  | |- pc (bind _ _) => apply pc_bind; [|intros ?]
  | |- pc (ret _) => apply pc_ret
  | |- pc prelude => apply pc_prelude
  | |- pc (fail _ _ _ _) => apply pc_fail
  | |- pc (failb _ _ _ _) => apply pc_failb
  | |- pc (done _ _ _ _ _) => apply pc_done
  | |- pc (log _ _ _ _ _ _) => apply pc_log
  | |- pc (gets _) => apply pc_gets
  | |- pc get => apply pc_get
  | |- pc get_errno => apply pc_get_errno
  | |- pc (set_errno _) => apply pc_set_errno
  | |- pc (set_cur_fds _) => apply pc_set_cur_fds
  | |- pc (match ?x with _ => _ end) => destruct x
  end.

Lemma pc_sys_close fd : pc (sys_close fd).
Proof. unfold sys_close. repeat pc_step. Qed.
Lemma pc_sys_getfd fd : pc (sys_getfd fd).
Proof. unfold sys_getfd. repeat pc_step. Qed.
Lemma pc_sys_setfd fd c : pc (sys_setfd fd c).
Proof. unfold sys_setfd. repeat pc_step. Qed.
Lemma pc_sys_sigfillset : pc sys_sigfillset.
Proof. unfold sys_sigfillset. repeat pc_step. Qed.
Lemma pc_sys_getcwd n : pc (sys_getcwd n).
Proof. unfold sys_getcwd. repeat pc_step. Qed.
Lemma pc_get_environ : pc get_environ.
Proof. apply pc_gets. Qed.
Lemma pc_sys_pipe : pc sys_pipe.
Proof.
  unfold sys_pipe. repeat pc_step.
  apply pc_modify. mod_ok.
Qed.
Lemma pcpost_heap w h n : wf w -> w_next_blk w <= n -> pcpost w (w_with_heap h n w).
Proof.
  intros W Hn. split; [destruct W as [Wc Wf]; split; [exact Wc|exact Wf]|]. split; [reflexivity|].
  split; [apply same_caller_refl|]. split; [exists []; reflexivity|exact Hn].
Qed.
Lemma pc_heap_alloc c args size : pc (heap_alloc c args size).
Proof.
  unfold heap_alloc. apply pc_bind; [apply pc_prelude|]. intros [e|].
  { apply pc_bind; [apply pc_set_errno|]. intros _. apply pc_bind; [apply pc_log|]. intros _. apply pc_ret. }
  intros w W. unfold bind at 1, gets. cbv beta iota.
  set (f := fun w0 : world => if in_main w0 then w_with_heap (<[w_next_blk w := (true, size)]> (w_heap w0)) (w_next_blk w + 1) w0
                              else w_with_heap (w_heap w0) (w_next_blk w + 1) w0).
  assert (P1 : pcpost w (f w)) by (unfold f; destruct (in_main w); apply pcpost_heap; try exact W; lia).
  assert (H2 : pc (log c args [] (w_next_blk w) [] 0;> ret (w_next_blk w))) by (apply pc_bind; [apply pc_log|intros _; apply pc_ret]).
  specialize (H2 (f w) ltac:(apply P1)).
  change ((modify f;> log c args [] (w_next_blk w) [] 0;> ret (w_next_blk w)) w) with ((log c args [] (w_next_blk w) [] 0;> ret (w_next_blk w)) (f w)).
  destruct ((log c args [] (w_next_blk w) [] 0;> ret (w_next_blk w)) (f w)); auto.
  exact (pcpost_trans _ _ _ P1 H2).
Qed.
Lemma pc_sys_free id : pc (sys_free id).
Proof.
  unfold sys_free. apply pc_bind; [apply pc_prelude|]. intros _. destruct (id =? 0); [apply pc_log|].
  apply pc_bind; [apply pc_get|]. intros w0.
  destruct (negb (in_main w0)); [apply pc_log|]. destruct (heap_live id w0); [|apply pc_log].
  apply pc_bind; [|intros _; apply pc_log]. apply pc_modify. mod_ok.
Qed.
Lemma pc_sys_realloc id n : pc (sys_realloc id n).
Proof.
  unfold sys_realloc. apply pc_bind; [apply pc_prelude|]. intros [e|].
  { apply pc_bind; [apply pc_set_errno|]. intros _. apply pc_bind; [apply pc_log|]. intros _. apply pc_ret. }
  intros w W. unfold bind at 1, get. cbv beta iota.
  assert (HL : forall r (x : Z), pc (log CRealloc [id; n] [] r [] 0;> ret x)) by (intros; apply pc_bind; [apply pc_log|intros _; apply pc_ret]).
  destruct (negb (in_main w)).
  { assert (P1 : pcpost w (w_with_heap (w_heap w) (w_next_blk w + 1) w)) by (apply pcpost_heap; [exact W|lia]).
    pose proof (HL (w_next_blk w) (w_next_blk w) _ ltac:(apply P1)) as H2.
    change ((modify (fun w0 : world => w_with_heap (w_heap w0) (w_next_blk w0 + 1) w0);> log CRealloc [id; n] [] (w_next_blk w) [] 0;> ret (w_next_blk w)) w)
      with ((log CRealloc [id; n] [] (w_next_blk w) [] 0;> ret (w_next_blk w)) (w_with_heap (w_heap w) (w_next_blk w + 1) w)).
    destruct ((log CRealloc [id; n] [] (w_next_blk w) [] 0;> ret (w_next_blk w)) (w_with_heap (w_heap w) (w_next_blk w + 1) w)); auto.
    exact (pcpost_trans _ _ _ P1 H2). }
  destruct ((id =? 0) || heap_live id w); [|apply HL, W].
  cbv zeta.
  set (h := <[w_next_blk w := (true, n)]> (if id =? 0 then w_heap w else <[id := (false, 0)]> (w_heap w))).
  assert (P1 : pcpost w (w_with_heap h (w_next_blk w + 1) w)) by (apply pcpost_heap; [exact W|lia]).
  pose proof (HL (w_next_blk w) (w_next_blk w) _ ltac:(apply P1)) as H2.
  change ((modify (fun w0 : world => w_with_heap (<[w_next_blk w := (true, n)]> (if id =? 0 then w_heap w0 else <[id := (false, 0)]> (w_heap w0))) (w_next_blk w + 1) w0);>
           log CRealloc [id; n] [] (w_next_blk w) [] 0;> ret (w_next_blk w)) w)
    with ((log CRealloc [id; n] [] (w_next_blk w) [] 0;> ret (w_next_blk w)) (w_with_heap h (w_next_blk w + 1) w)).
  destruct ((log CRealloc [id; n] [] (w_next_blk w) [] 0;> ret (w_next_blk w)) (w_with_heap h (w_next_blk w + 1) w)); auto.
  exact (pcpost_trans _ _ _ P1 H2).
Qed.

(* blocking: children run, the caller's record stays *)
Lemma after_block ready tmo w : wf w ->
  let w1 := blocked_world (block_until ready tmo w) in
  wf w1 /\ w_cur w1 = w_cur w /\ curp w1 = curp w /\ w_trace w1 = w_trace w /\ w_next_blk w1 = w_next_blk w.
Proof.
  intros W. cbn zeta.
  pose proof (keeps_block_until (w_cur w) ready tmo w (wf_lib_at _ W)) as K.
  pose proof (flat_block_until ready tmo w) as F. unfold flat in F. injection F as Ft Fc _ _ _ _ _ Fb _ _.
  split; [eapply keeps_wf; eassumption|]. split; [exact Fc|]. split; [|split; [exact Ft|exact Fb]].
  unfold curp. rewrite Fc. apply keeps_get_proc. exact K.
Qed.
Lemma pcpost_block ready tmo w : wf w -> pcpost w (blocked_world (block_until ready tmo w)).
Proof.
  intros W. destruct (after_block ready tmo w W) as (W1 & C1 & P1 & T1 & B1).
  split; [exact W1|]. split; [exact C1|]. split; [rewrite P1; apply same_caller_refl|]. split; [exists []; exact T1|rewrite B1; apply Z.le_refl].
Qed.

Lemma pc_sys_read fd n : pc (sys_read fd n).
Proof.
  unfold sys_read. apply pc_bind; [apply pc_prelude|]. intros [e|].
  { apply pc_bind; [apply pc_failb|]. intros _. apply pc_ret. }
  apply pc_bind; [apply pc_gets|]. intros t. destruct (t !! fd) as [d|].
  2:{ apply pc_bind; [apply pc_fail|]. intros _. apply pc_ret. }
  destruct (f_obj d) as [q|q|a|pa a|id a];
    try (apply pc_bind; [first [apply pc_fail|apply pc_done]|]; intros _; apply pc_ret).
  destruct (n <=? 0). { apply pc_bind; [apply pc_done|]. intros _. apply pc_ret. }
  apply pc_bind; [apply pc_get|]. intros w0.
  destruct (negb (pipe_readable q w0) && f_nonblock d). { apply pc_bind; [apply pc_fail|]. intros _. apply pc_ret. }
  intros w W. pose proof (pcpost_block (pipe_readable q) (-1) w W) as PB.
  destruct (block_until (pipe_readable q) (-1) w) as [w1|w1|w1|w1]; cbn [blocked_world] in PB; auto.
  destruct (pipe_take n (get_pipe q w1)) as [rs pp].
  assert (P2 : pcpost w1 (set_pipe q pp w1)).
  { pose proof (pc_modify (set_pipe q pp) ltac:(mod_ok) w1 ltac:(apply PB)) as H2. exact H2. }
  assert (H3 : pc (log CRead [fd; n] [] (runs_len rs) [] (w_time w1 - w_time w);> ret (runs_len rs, rs))).
  { apply pc_bind; [apply pc_log|]. intros _. apply pc_ret. }
  specialize (H3 (set_pipe q pp w1) ltac:(apply P2)).
  destruct ((log CRead [fd; n] [] (runs_len rs) [] (w_time w1 - w_time w);> ret (runs_len rs, rs)) (set_pipe q pp w1)); auto.
  exact (pcpost_trans _ _ _ PB (pcpost_trans _ _ _ P2 H3)).
Qed.

Lemma zombie_children_state par w c st : In (c, st) (zombie_children par w) -> pr_state (get_proc c w) = Zombie st.
Proof.
  unfold zombie_children. intros H. apply in_flat_map in H. destruct H as ([k p] & Hin & H). cbn in H.
  apply elem_of_list_In, elem_of_map_to_list in Hin.
  destruct (pr_state p) as [|st'|st'] eqn:Es; try contradiction.
  destruct (pr_parent p =? par); [|contradiction]. destruct H as [H|[]]. injection H as <- <-.
  unfold get_proc. rewrite Hin. exact Es.
Qed.

(* reaping some ended process other than the caller *)
Lemma pcpost_reap pid c st b w1 : wf w1 -> pr_state (get_proc c w1) = Zombie st ->
  match (log CWaitpid [pid] [] c [Z.of_N st] b;> ret (c, Z.of_N st)) (upd_proc c (pr_with_state (Reaped st)) w1) with
  | Ret _ w' => pcpost w1 w' | _ => True end.
Proof.
  intros W1 Es.
  assert (Hne : c <> w_cur w1).
  { intros ->. destruct W1 as [(q & Hq & _ & Hr) _]. unfold get_proc in Es. rewrite Hq in Es. cbn in Es. congruence. }
  set (w2 := upd_proc c (pr_with_state (Reaped st)) w1).
  assert (P2 : pcpost w1 w2).
  { assert (K2 : keeps (w_cur w1) w1 w2) by (apply keeps_upd_proc; exact Hne).
    assert (C2 : w_cur w2 = w_cur w1) by apply cur_upd_proc.
    split; [eapply keeps_wf; [exact W1|exact K2|exact C2]|]. split; [exact C2|].
    split; [unfold curp; rewrite C2, (keeps_get_proc _ _ _ K2); apply same_caller_refl|].
    split; [exists []; apply trace_upd_proc|unfold w2; rewrite blk_upd_proc; apply Z.le_refl]. }
  clearbody w2.
  assert (H3 : pc (log CWaitpid [pid] [] c [Z.of_N st] b;> ret (c, Z.of_N st))) by (apply pc_bind; [apply pc_log|intros _; apply pc_ret]).
  specialize (H3 w2 ltac:(apply P2)).
  destruct ((log CWaitpid [pid] [] c [Z.of_N st] b;> ret (c, Z.of_N st)) w2); auto.
  eapply pcpost_trans; eassumption.
Qed.

Lemma pc_sys_waitpid pid : pc (sys_waitpid pid).
Proof.
  unfold sys_waitpid. apply pc_bind; [apply pc_prelude|]. intros [e|].
  { apply pc_bind; [apply pc_failb|]. intros _. apply pc_ret. }
  assert (HF : pc (fail CWaitpid [pid] [] ECHILD;> ret (-1, 0))) by (apply pc_bind; [apply pc_fail|intros _; apply pc_ret]).
  intros w W. destruct (0 <? pid).
  - destruct (w_procs w !! pid) as [p|] eqn:Ep; [|apply HF, W].
    destruct (is_child_of (w_cur w) p); [|apply HF, W].
    set (ready := fun w1 : world => match pr_state (get_proc pid w1) with Running => false | _ => true end).
    pose proof (pcpost_block ready (-1) w W) as PB.
    destruct (block_until ready (-1) w) as [w1|w1|w1|w1]; cbn [blocked_world] in PB; auto.
    destruct (pr_state (get_proc pid w1)) as [|st|st] eqn:Es; auto.
    pose proof (pcpost_reap pid pid st (w_time w1 - w_time w) w1 ltac:(apply PB) Es) as H4.
    destruct ((log CWaitpid [pid] [] pid [Z.of_N st] (w_time w1 - w_time w);> ret (pid, Z.of_N st)) (upd_proc pid (pr_with_state (Reaped st)) w1)); auto.
    exact (pcpost_trans _ _ _ PB H4).
  - destruct (negb (has_children (w_cur w) w)); [apply HF, W|].
    set (ready := fun w1 : world => match zombie_children (w_cur w) w1 with [] => false | _ => true end).
    pose proof (pcpost_block ready (-1) w W) as PB.
    destruct (block_until ready (-1) w) as [w1|w1|w1|w1]; cbn [blocked_world] in PB; auto.
    destruct (zombie_children (w_cur w) w1) as [|[c st] rest] eqn:Ez; auto.
    assert (Es : pr_state (get_proc c w1) = Zombie st).
    { apply (zombie_children_state (w_cur w)). rewrite Ez. left. reflexivity. }
    pose proof (pcpost_reap pid c st (w_time w1 - w_time w) w1 ltac:(apply PB) Es) as H4.
    destruct ((log CWaitpid [pid] [] c [Z.of_N st] (w_time w1 - w_time w);> ret (c, Z.of_N st)) (upd_proc c (pr_with_state (Reaped st)) w1)); auto.
    exact (pcpost_trans _ _ _ PB H4).
Qed.

(* ---- library functions of the parent side ---- *)
Lemma pc_mapM_ {A} (f : A -> MW unit) l : (forall a, pc (f a)) -> pc (mapM_ f l).
Proof. intros Hf. induction l as [|x l IH]; cbn [mapM_]; [apply pc_ret|]. apply pc_bind; [apply Hf|]. intros _. exact IH. Qed.
Lemma pc_handle_destroy h : pc (handle_destroy h).
Proof. unfold handle_destroy. destruct (h =? HANDLE_INVALID); [apply pc_ret|]. apply pc_bind; [apply pc_sys_close|]. intros _. apply pc_ret. Qed.
Lemma pc_pipe_destroy h : pc (pipe_destroy h).
Proof. apply pc_handle_destroy. Qed.
Lemma pc_handle_cloexec h en : pc (handle_cloexec h en).
Proof.
  unfold handle_cloexec. apply pc_bind; [apply pc_sys_getfd|]. intros r.
  destruct (r <? 0); [apply pc_bind; [apply pc_get_errno|intros e; apply pc_ret]|]. cbn zeta.
  apply pc_bind; [apply pc_sys_setfd|]. intros r2.
  destruct (r2 <? 0); [apply pc_bind; [apply pc_get_errno|intros e; apply pc_ret]|apply pc_ret].
Qed.
Lemma pc_pipe_init : pc pipe_init.
Proof.
  unfold pipe_init. apply pc_bind; [apply pc_sys_pipe|]. intros [[r a] b].
  destruct (r <? 0).
  { apply pc_bind; [apply pc_get_errno|]. intros e. apply pc_bind; [apply pc_pipe_destroy|]. intros _.
    apply pc_bind; [apply pc_pipe_destroy|]. intros _. apply pc_ret. }
  apply pc_bind; [apply pc_handle_cloexec|]. intros r1.
  destruct (r1 <? 0).
  { apply pc_bind; [apply pc_pipe_destroy|]. intros _. apply pc_bind; [apply pc_pipe_destroy|]. intros _. apply pc_ret. }
  apply pc_bind; [apply pc_handle_cloexec|]. intros r2.
  destruct (r2 <? 0).
  { apply pc_bind; [apply pc_pipe_destroy|]. intros _. apply pc_bind; [apply pc_pipe_destroy|]. intros _. apply pc_ret. }
  apply pc_bind; [apply pc_pipe_destroy|]. intros _. apply pc_bind; [apply pc_pipe_destroy|]. intros _. apply pc_ret.
Qed.
Lemma pc_strv_free l : pc (strv_free l).
Proof.
  unfold strv_free. destruct l as [[arr ss]|]; [|apply pc_sys_free].
  apply pc_bind; [apply pc_mapM_; intros a; apply pc_sys_free|]. intros _. apply pc_sys_free.
Qed.
Lemma pc_dup_all l : forall acc, pc (dup_all l acc).
Proof.
  induction l as [|s r IH]; intros acc; cbn [dup_all]; [apply pc_ret|].
  apply pc_bind; [apply pc_heap_alloc|]. intros b. destruct (b =? 0); [|apply IH].
  apply pc_bind; [apply pc_mapM_; intros a; apply pc_sys_free|]. intros _. apply pc_ret.
Qed.
Lemma pc_strv_concat a b : pc (strv_concat a b).
Proof.
  unfold strv_concat. cbn zeta. apply pc_bind; [apply pc_heap_alloc|]. intros arr.
  destruct (arr =? 0). { apply pc_bind; [apply pc_sys_free|]. intros _. apply pc_ret. }
  apply pc_bind; [apply pc_dup_all|]. intros [l|]; [apply pc_ret|].
  apply pc_bind; [apply pc_sys_free|]. intros _. apply pc_ret.
Qed.
Lemma pc_prepend_loop fuel : forall blk cs ps, pc (prepend_loop fuel blk cs ps).
Proof.
  induction fuel as [|f IH]; intros blk cs ps; cbn [prepend_loop]; [apply pc_crash|].
  apply pc_bind; [apply pc_sys_getcwd|]. intros [r cwd]. destruct (r =? 0); [apply pc_ret|].
  apply pc_bind; [apply pc_get_errno|]. intros e.
  destruct (negb (e =? ERANGE)). { apply pc_bind; [apply pc_sys_free|]. intros _. apply pc_ret. }
  cbn zeta. apply pc_bind; [apply pc_sys_realloc|]. intros nb.
  destruct (nb =? 0); [|apply IH]. apply pc_bind; [apply pc_sys_free|]. intros _. apply pc_ret.
Qed.
Lemma pc_path_prepend_cwd path : pc (path_prepend_cwd path).
Proof.
  unfold path_prepend_cwd. cbn zeta. apply pc_bind; [apply pc_heap_alloc|]. intros blk.
  destruct (blk =? 0); [apply pc_ret|]. apply pc_bind; [apply pc_gets|]. intros cl.
  apply pc_bind; [apply pc_prepend_loop|]. intros [[b cwd]|]; apply pc_ret.
Qed.
Lemma pc_read_retry fuel fd : pc (read_retry fuel fd).
Proof.
  induction fuel as [|f IH]; cbn [read_retry]; [apply pc_crash|].
  apply pc_bind; [apply pc_sys_read|]. intros [q rs]. destruct (q <? 0); [|apply pc_ret].
  apply pc_bind; [apply pc_get_errno|]. intros e. destruct (e =? EINTR); [exact IH|apply pc_ret].
Qed.
Lemma pc_read_errpipe fd : pc (read_errpipe fd).
Proof. unfold read_errpipe. apply pc_bind; [apply pc_gets|]. intros nf. apply pc_read_retry. Qed.
Lemma pc_waitpid_retry fuel pid : pc (waitpid_retry fuel pid).
Proof.
  induction fuel as [|f IH]; cbn [waitpid_retry]; [apply pc_crash|].
  apply pc_bind; [apply pc_sys_waitpid|]. intros [r st]. destruct (r <? 0); [|apply pc_ret].
  apply pc_bind; [apply pc_get_errno|]. intros e. destruct (e =? EINTR); [exact IH|apply pc_ret].
Qed.
Lemma pc_waitpid_child pid : pc (waitpid_child pid).
Proof. unfold waitpid_child. apply pc_bind; [apply pc_gets|]. intros nf. apply pc_waitpid_retry. Qed.

(* ================= 3. the mask, fork, and the two theorems ================= *)
(* everything of the caller's state except the mask *)
Definition same3 (p p' : proc) : Prop := pr_disp p' = pr_disp p /\ pr_cwd p' = pr_cwd p /\ pr_env p' = pr_env p.
Definition pq (w w' : world) : Prop :=
  wf w' /\ w_cur w' = w_cur w /\ same3 (curp w) (curp w') /\ exists l, w_trace w' = l ++ w_trace w.
Lemma pq_of_pcpost w w' : pcpost w w' -> pq w w'.
Proof. intros (W & C & (_ & D & Cw & E) & T & _). split; [exact W|]. split; [exact C|]. split; [repeat split; assumption|exact T]. Qed.
Lemma pcpost_mask w w' : pcpost w w' -> pr_mask (curp w') = pr_mask (curp w).
Proof. intros (_ & _ & (M & _) & _ & _). exact M. Qed.
Lemma pq_trans w1 w2 w3 : pq w1 w2 -> pq w2 w3 -> pq w1 w3.
Proof.
  intros (W2 & C2 & (D2 & Cw2 & E2) & l2 & T2) (W3 & C3 & (D3 & Cw3 & E3) & l3 & T3).
  split; [exact W3|]. split; [congruence|]. split; [repeat split; congruence|].
  exists (l3 ++ l2). rewrite T3, T2, app_assoc. reflexivity.
Qed.

(* a pthread_sigmask call that the fault plan made fail, logged after [base] *)
Definition sigfail (base : list event) (w' : world) : Prop :=
  exists l ev, w_trace w' = l ++ base /\ In ev l /\ e_call ev = CSigmask /\ 0 < e_ret ev.
Lemma sigfail_mono base w1 w2 : sigfail base w1 -> (exists l, w_trace w2 = l ++ w_trace w1) -> sigfail base w2.
Proof.
  intros (l1 & ev & T1 & Hin & Hc & Hr) (l & T2). exists (l ++ l1), ev.
  split; [rewrite T2, T1, app_assoc; reflexivity|]. split; [apply in_or_app; right; exact Hin|]. auto.
Qed.

(* small run equations (kept generic so that no proof has to normalise a whole system call) *)
Definition mkev (c : callid) (args : list Z) (sargs : list str) (r : Z) (outs : list Z) (b : Z) (w : world) : event :=
  {| e_pid := w_cur w; e_call := c; e_args := args; e_sargs := sargs; e_ret := r; e_outs := outs;
     e_errno := pr_errno (curp w); e_time := w_time w; e_blocked := b |}.
Lemma run_log_ret {A} c a s r o b (x : A) w :
  (log c a s r o b;> ret x) w = Ret x (w_with_trace (mkev c a s r o b w :: w_trace w) w).
Proof. reflexivity. Qed.
Lemma run_mod_log_ret {A} f c a s r o b (x : A) w :
  (modify f;> log c a s r o b;> ret x) w = Ret x (w_with_trace (mkev c a s r o b (f w) :: w_trace (f w)) (f w)).
Proof. reflexivity. Qed.
Lemma get_inv (w a w' : world) : get w = Ret a w' -> a = w /\ w' = w.
Proof. intros H. injection H as <- <-. auto. Qed.
Lemma ret_inv {A} (x a : A) (w w' : world) : ret x w = Ret a w' -> a = x /\ w' = w.
Proof. intros H. injection H as <- <-. auto. Qed.

(* SIG_SETMASK: either the mask is installed and the old one returned, or the call was failed by
   the fault plan and nothing changed *)
Lemma sys_sigmask_set_run s w f w0 : prelude w = Ret f w0 ->
  sys_sigmask SIG_SETMASK (Some s) w =
  match f with
  | Some e => Ret (Z.pos e, []) (w_with_trace (mkev CSigmask (SIG_SETMASK :: 1 :: s) [] (Z.pos e) [] 0 w0 :: w_trace w0) w0)
  | None => Ret (0, pr_mask (curp w0))
              (w_with_trace (mkev CSigmask (SIG_SETMASK :: 1 :: s) [] 0 (pr_mask (curp w0)) 0 (upd_cur (pr_with_mask (norm_mask s)) w0)
                             :: w_trace (upd_cur (pr_with_mask (norm_mask s)) w0)) (upd_cur (pr_with_mask (norm_mask s)) w0))
  end.
Proof. intros Ep. unfold sys_sigmask. unfold bind at 1. rewrite Ep. destruct f; reflexivity. Qed.

Lemma signal_mask_set s w r old w' : wf w ->
  signal_mask SIG_SETMASK (Some s) w = Ret (r, old) w' ->
  pq w w' /\
  ((r = 0 /\ old = pr_mask (curp w) /\ pr_mask (curp w') = norm_mask s) \/
   (r < 0 /\ pr_mask (curp w') = pr_mask (curp w) /\ sigfail (w_trace w) w')).
Proof.
  intros W E. unfold signal_mask in E.
  apply bind_inv in E as ([e0 old0] & w1 & E1 & E2). apply ret_inv in E2 as [E2 ->]. injection E2 as -> ->.
  pose proof (prelude_spec w W) as Hp. destruct (prelude w) as [f w0|w0|w0|y w0] eqn:Ep; try contradiction.
  2:{ unfold sys_sigmask, bind at 1 in E1. rewrite Ep in E1. discriminate. }
  destruct Hp as (W0 & C0 & P0 & T0 & _).
  rewrite (sys_sigmask_set_run s w f w0 Ep) in E1.
  destruct f as [e|]; injection E1 as <- <- <-.
  - split.
    + split; [apply wf_with_trace, W0|]. split; [exact C0|].
      split; [change (curp (w_with_trace ?t w0)) with (curp w0); rewrite P0; repeat split|].
      eexists [_]. cbn [w_trace w_with_trace]. rewrite T0. reflexivity.
    + right. split; [lia|]. split; [change (curp (w_with_trace ?t w0)) with (curp w0); rewrite P0; reflexivity|].
      eexists [_], _. split; [cbn [w_trace w_with_trace]; rewrite T0; reflexivity|]. split; [left; reflexivity|].
      split; [reflexivity|]. cbn [mkev e_ret]. lia.
  - assert (Cp : curp (upd_cur (pr_with_mask (norm_mask s)) w0) = pr_with_mask (norm_mask s) (curp w0)) by (apply curp_upd_cur, W0).
    split.
    + split. { apply wf_with_trace, wf_upd_cur; [exact W0|]. intros p; split; reflexivity. }
      split; [cbn [w_cur w_with_trace]; unfold upd_cur; rewrite cur_upd_proc; exact C0|].
      split. { change (curp (w_with_trace ?t ?x)) with (curp x). rewrite Cp, P0. repeat split. }
      eexists [_]. cbn [w_trace w_with_trace]. unfold upd_cur. rewrite trace_upd_proc, T0. reflexivity.
    + left. split; [reflexivity|]. split; [rewrite P0; reflexivity|].
      change (curp (w_with_trace ?t ?x)) with (curp x). rewrite Cp. reflexivity.
Qed.

(* fork: the parent's record is exactly what it was, whatever the child did before it exec'd,
   exited or failed — the only trace of the call in the caller's state is errno on failure *)
Definition fork_child_world (w : world) : world :=
  let c := w_next_pid w in
  w_with_cur c (w_with_next_pid (c + 1) (w_with_procs (<[c := pr_fork_copy (w_cur w) (curp w)]> (w_procs w)) w)).
Lemma fork_pre_inv w c w1 : fork_pre w = Ret c w1 ->
  exists f w0, prelude w = Ret f w0 /\
    match f with
    | Some e => fail CFork [] [] (Z.pos e) w0 = Ret c w1
    | None => c = w_next_pid w0 /\
              w1 = w_with_trace (mkev CFork [] [] 0 [] 0 (fork_child_world w0) :: w_trace (fork_child_world w0)) (fork_child_world w0)
    end.
Proof.
  unfold fork_pre. intros E. apply bind_inv in E as (f & w0 & Ep & E). exists f, w0. split; [exact Ep|].
  destruct f as [e|]; [exact E|]. cbv beta zeta in E. rewrite run_log_ret in E. injection E as <- <-. split; reflexivity.
Qed.
Lemma gets_inv {A} (f : world -> A) w a w' : gets f w = Ret a w' -> a = f w /\ w' = w.
Proof. intros H. injection H as <- <-. auto. Qed.

Lemma sys_fork_spec child w r w' : wf w -> 0 <= w_cur w -> kp (w_cur w) child ->
  sys_fork child w = Ret r w' ->
  pcpost w w' /\ ((r = -1 /\ 0 < pr_errno (curp w')) \/
                 (0 < r /\ exists ev l, w_trace w' = ev :: l ++ w_trace w /\ e_call ev = CFork /\ e_ret ev = r /\ e_pid ev = w_cur w)).
Proof.
  intros W Hpos Hk E. unfold sys_fork in E.
  apply bind_inv in E as (par & wa & Eg & E). apply gets_inv in Eg as [-> ->].
  apply bind_inv in E as (c & w1 & Epre & E).
  apply fork_pre_inv in Epre as (f & w0 & Ep & Epre).
  pose proof (pc_prelude w W) as Hp. rewrite Ep in Hp.
  destruct f as [e|].
  - destruct (fail_val CFork [] [] (Z.pos e) w0 ltac:(apply Hp)) as (w1' & Ef & Ee).
    rewrite Ef in Epre. injection Epre as <- <-.
    pose proof (pc_fail CFork [] [] (Z.pos e) w0 ltac:(apply Hp)) as Hf. rewrite Ef in Hf.
    change (-1 <? 0) with true in E. cbv iota in E. apply ret_inv in E as [-> ->].
    split; [eapply pcpost_trans; eassumption|left; split; [reflexivity|rewrite Ee; lia]].
  - destruct Epre as [-> ->]. destruct Hp as (W0 & C0 & S0 & T0 & B0).
    assert (Hc : w_cur w0 < w_next_pid w0). { destruct W0 as [(q & Hq & _) Hf]. apply Hf. rewrite Hq. eauto. }
    destruct (Z.ltb_spec (w_next_pid w0) 0); [lia|]. cbv beta in E.
    set (wc := w_with_trace _ (fork_child_world w0)) in E.
    (* the child's world: the parent's record is there, untouched, and the child is someone else *)
    assert (Kc : keeps (w_cur w0) w0 wc).
    { unfold keeps, wc, fork_child_world. cbn [w_procs w_next_pid w_with_trace w_with_cur w_with_next_pid w_with_procs].
      split; [rewrite lookup_insert_ne by lia; reflexivity|]. split; [lia|].
      intros j Hj. destruct (decide (j = w_next_pid w0)) as [->|Hn]; [right; lia|].
      rewrite lookup_insert_ne in Hj by congruence. left; exact Hj. }
    assert (Cc : w_cur wc = w_next_pid w0) by reflexivity.
    assert (Tc : exists l, w_trace wc = l ++ w_trace w0) by (eexists [_]; reflexivity).
    assert (Lc : lib_at (w_cur w0) wc) by (eapply lib_at_keeps; [apply wf_lib_at, W0|exact Kc]).
    rewrite <- C0 in Hk.
    pose proof (Hk wc ltac:(rewrite Cc; lia) Lc) as (K3 & C3 & B3 & l3 & T3).
    destruct (child wc) as [a w3|w3|w3|y w3]; try discriminate. cbn [oworld] in *.
    unfold fork_post in E. rewrite run_log_ret in E. injection E as <- <-.
    destruct T0 as [l0 T0]. destruct Tc as [lc Tc].
    split.
    2:{ right. split; [lia|]. eexists _, (l3 ++ lc ++ l0). split.
        - cbn [w_trace w_with_trace w_with_cur]. rewrite T3, Tc, T0, <- !app_assoc. reflexivity.
        - split; [reflexivity|split; reflexivity]. }
    set (w4 := w_with_cur (w_cur w) w3).
    assert (K4 : keeps (w_cur w0) w0 w4).
    { eapply keeps_trans; [exact Kc|]. eapply keeps_trans; [exact K3|]. apply keeps_same_procs; reflexivity. }
    assert (C4 : w_cur w4 = w_cur w0) by (cbn; congruence).
    assert (W4 : wf w4) by (eapply keeps_wf; eassumption).
    eapply pcpost_trans; [split; [exact W0|split; [exact C0|split; [exact S0|split; [exists l0; exact T0|exact B0]]]]|].
    split; [apply wf_with_trace, W4|]. split; [exact C4|].
    split.
    + change (curp (w_with_trace ?t ?x)) with (curp x). unfold curp. rewrite C4, (keeps_get_proc _ _ _ K4). apply same_caller_refl.
    + split.
      * eexists (_ :: l3 ++ lc). cbn [w_trace w_with_trace]. change (w_trace w4) with (w_trace w3).
        rewrite T3, Tc, app_assoc. reflexivity.
      * change (w_next_blk w0 <= w_next_blk w3). change (w_next_blk wc) with (w_next_blk w0) in B3. exact B3.
Qed.

Lemma pc_run {A} (m : MW A) w a w' : pc m -> wf w -> m w = Ret a w' -> pcpost w w'.
Proof. intros Hm W E. specialize (Hm w W). rewrite E in Hm. exact Hm. Qed.
Lemma sigfail_base l base w' : sigfail (l ++ base) w' -> sigfail base w'.
Proof.
  intros (l1 & ev & T & Hin & H). exists (l1 ++ l), ev. split; [rewrite T, app_assoc; reflexivity|].
  split; [apply in_or_app; left; exact Hin|exact H].
Qed.

(* [Rst M base w']: the caller's mask is M again, or a pthread_sigmask call was failed by the plan *)
Definition Rst (M : list Z) (base : list event) (w' : world) : Prop :=
  pr_mask (curp w') = M \/ sigfail base w'.
Lemma Rst_pc M base w1 w2 : Rst M base w1 -> pcpost w1 w2 -> Rst M base w2.
Proof.
  intros [H|H] P; [left; rewrite (pcpost_mask _ _ P); exact H|right].
  eapply sigfail_mono; [exact H|apply P].
Qed.
Lemma pq_pc w1 w2 w3 : pq w1 w2 -> pcpost w2 w3 -> pq w1 w3.
Proof. intros H P. eapply pq_trans; [exact H|apply pq_of_pcpost, P]. Qed.

(* the restoring call *)
Lemma restore_spec M base old w r o w' : wf w -> norm_mask old = M ->
  (exists l, w_trace w = l ++ base) ->
  signal_mask SIG_SETMASK (Some old) w = Ret (r, o) w' -> pq w w' /\ Rst M base w'.
Proof.
  intros W Hn [l T] E. destruct (signal_mask_set _ _ _ _ _ W E) as [Q [(_ & _ & Hm)|(_ & _ & Hs)]].
  - split; [exact Q|left; congruence].
  - split; [exact Q|right]. rewrite T in Hs. eapply sigfail_base; exact Hs.
Qed.

Theorem process_fork_restores except ck w r w' :
  wf w -> 0 <= w_cur w -> kp (w_cur w) ck -> norm_mask (pr_mask (curp w)) = pr_mask (curp w) ->
  process_fork except ck w = Ret r w' ->
  pq w w' /\ Rst (pr_mask (curp w)) (w_trace w) w'.
Proof.
  intros W Hpos Hk Hcanon E. unfold process_fork in E.
  apply bind_inv in E as (r0 & w1 & E0 & E).
  pose proof (pc_run _ _ _ _ pc_sys_sigfillset W E0) as P1.
  destruct (r0 <? 0).
  { apply bind_inv in E as (e & w1' & Eg & E). apply gets_inv in Eg as [-> ->]. apply ret_inv in E as [-> ->].
    split; [apply pq_of_pcpost, P1|left; apply (pcpost_mask _ _ P1)]. }
  apply bind_inv in E as ([r1 old] & w2 & E1 & E). cbv beta iota in E.
  destruct (signal_mask_set _ _ _ _ _ ltac:(apply P1) E1) as [Q2 H2].
  assert (Q02 : pq w w2) by (eapply pq_trans; [apply pq_of_pcpost, P1|exact Q2]).
  destruct (Z.ltb_spec r1 0).
  { apply ret_inv in E as [-> ->]. split; [exact Q02|].
    destruct H2 as [(-> & _)|(_ & Hm & _)]; [lia|]. left. rewrite Hm. apply (pcpost_mask _ _ P1). }
  destruct H2 as [(_ & Hold & Hm2)|(Hneg & _)]; [|lia].
  assert (Hold' : norm_mask old = pr_mask (curp w)) by (rewrite Hold, (pcpost_mask _ _ P1); exact Hcanon).
  apply bind_inv in E as ([r2 pp] & w3 & E2 & E). cbv beta iota in E.
  pose proof (pc_run _ _ _ _ pc_pipe_init ltac:(apply Q2) E2) as P3.
  assert (Q03 : pq w w3) by (eapply pq_pc; eassumption).
  assert (T3 : exists l, w_trace w3 = l ++ w_trace w) by apply Q03.
  assert (C3 : w_cur w3 = w_cur w) by apply Q03.
  destruct pp as [[prd pwr]|].
  2:{ apply bind_inv in E as ([r3 o3] & w4 & E3 & E). apply ret_inv in E as [-> ->].
      destruct (restore_spec _ _ _ _ _ _ _ ltac:(apply P3) Hold' T3 E3) as [Q4 R4].
      split; [eapply pq_trans; eassumption|exact R4]. }
  apply bind_inv in E as (r3 & w4 & E3 & E).
  assert (Hk3 : kp (w_cur w3) (fork_child_part prd pwr except ck)) by (rewrite C3; apply kp_fork_child_part, Hk).
  destruct (sys_fork_spec _ _ _ _ ltac:(apply P3) ltac:(rewrite C3; exact Hpos) Hk3 E3) as [P4 Hr3].
  assert (Q04 : pq w w4) by (eapply pq_pc; eassumption).
  assert (T4 : exists l, w_trace w4 = l ++ w_trace w) by apply Q04.
  destruct (r3 <? 0).
  { apply bind_inv in E as (e & w4' & Eg & E). apply gets_inv in Eg as [-> ->]. cbv zeta in E.
    apply bind_inv in E as ([r5 o5] & w5 & E5 & E).
    destruct (restore_spec _ _ _ _ _ _ _ ltac:(apply P4) Hold' T4 E5) as [Q5 R5].
    apply bind_inv in E as (x6 & w6 & E6 & E). pose proof (pc_run _ _ _ _ (pc_pipe_destroy _) ltac:(apply Q5) E6) as P6.
    apply bind_inv in E as (x7 & w7 & E7 & E). pose proof (pc_run _ _ _ _ (pc_pipe_destroy _) ltac:(apply P6) E7) as P7.
    apply ret_inv in E as [-> ->].
    split; [eapply pq_pc; [eapply pq_pc; [eapply pq_trans; eassumption|exact P6]|exact P7]|].
    eapply Rst_pc; [eapply Rst_pc; [exact R5|exact P6]|exact P7]. }
  cbv zeta in E.
  apply bind_inv in E as ([r5 o5] & w5 & E5 & E).
  destruct (restore_spec _ _ _ _ _ _ _ ltac:(apply P4) Hold' T4 E5) as [Q5 R5].
  apply bind_inv in E as (x6 & w6 & E6 & E). pose proof (pc_run _ _ _ _ (pc_pipe_destroy _) ltac:(apply Q5) E6) as P6.
  apply bind_inv in E as ([q rs] & w7 & E7 & E). pose proof (pc_run _ _ _ _ (pc_read_errpipe _) ltac:(apply P6) E7) as P7.
  cbv beta iota zeta in E.
  apply bind_inv in E as (r8 & w8 & E8 & E).
  assert (P8 : pcpost w7 w8).
  { destruct (0 <? (if q <? 0 then 0 else decode_int (runs_bytes rs))).
    - apply bind_inv in E8 as ([rw stw] & w8' & Ew & E8).
      pose proof (pc_run _ _ _ _ (pc_waitpid_child _) ltac:(apply P7) Ew) as Pw.
      destruct (rw <? 0).
      + apply bind_inv in E8 as (e & w8'' & Eg & E8). apply gets_inv in Eg as [-> ->]. apply ret_inv in E8 as [_ ->]. exact Pw.
      + apply ret_inv in E8 as [_ ->]. exact Pw.
    - apply ret_inv in E8 as [_ ->]. apply pcpost_refl, P7. }
  apply bind_inv in E as (x9 & w9 & E9 & E). pose proof (pc_run _ _ _ _ (pc_pipe_destroy _) ltac:(apply P8) E9) as P9.
  apply ret_inv in E as [-> ->].
  split.
  - eapply pq_pc; [|exact P9]. eapply pq_pc; [|exact P8]. eapply pq_pc; [|exact P7]. eapply pq_pc; [|exact P6].
    eapply pq_trans; eassumption.
  - eapply Rst_pc; [|exact P9]. eapply Rst_pc; [|exact P8]. eapply Rst_pc; [|exact P7]. eapply Rst_pc; [|exact P6]. exact R5.
Qed.

(* ---- process_start ---- *)
Lemma pc_finish {A} prd pwr blk env (y : A) :
  pc (pipe_destroy prd;> pipe_destroy pwr;> sys_free blk;> strv_free env;> ret y).
Proof.
  apply pc_bind; [apply pc_pipe_destroy|]. intros _. apply pc_bind; [apply pc_pipe_destroy|]. intros _.
  apply pc_bind; [apply pc_sys_free|]. intros _. apply pc_bind; [apply pc_strv_free|]. intros _. apply pc_ret.
Qed.

Theorem process_start_restores pr argv o ck w r pid w' :
  wf w -> 0 <= w_cur w -> kp (w_cur w) ck -> norm_mask (pr_mask (curp w)) = pr_mask (curp w) ->
  process_start pr argv o ck w = Ret (r, pid) w' ->
  pq w w' /\ Rst (pr_mask (curp w)) (w_trace w) w'.
Proof.
  intros W Hpos Hk Hcanon E. unfold process_start in E. cbv zeta in E.
  assert (Hdone : forall w1, pcpost w w1 -> pq w w1 /\ Rst (pr_mask (curp w)) (w_trace w) w1).
  { intros w1 P. split; [apply pq_of_pcpost, P|left; apply (pcpost_mask _ _ P)]. }
  apply bind_inv in E as ([r1 pp] & w1 & E1 & E). cbv beta iota in E.
  pose proof (pc_run _ _ _ _ pc_pipe_init W E1) as P1.
  destruct pp as [[prd pwr]|].
  2:{ apply Hdone. eapply pcpost_trans; [exact P1|]. exact (pc_run _ _ _ _ (pc_finish _ _ _ _ _) ltac:(apply P1) E). }
  apply bind_inv in E as (pg & w2 & E2 & E).
  assert (P2 : pcpost w1 w2).
  { destruct argv as [[|a0 av]|]; try (apply ret_inv in E2 as [_ ->]; apply pcpost_refl, P1).
    destruct (isSome (po_wd o) && path_is_relative a0).
    - exact (pc_run _ _ _ _ (pc_path_prepend_cwd _) ltac:(apply P1) E2).
    - apply bind_inv in E2 as (b & w2' & Eb & E2). apply ret_inv in E2 as [_ ->].
      exact (pc_run _ _ _ _ (pc_heap_alloc _ _ _) ltac:(apply P1) Eb). }
  assert (P02 : pcpost w w2) by (eapply pcpost_trans; eassumption).
  match type of E with (if ?b then _ else _) _ = _ => destruct b end.
  { apply bind_inv in E as (e & w2' & Eg & E). apply gets_inv in Eg as [-> ->].
    apply Hdone. eapply pcpost_trans; [exact P02|]. exact (pc_run _ _ _ _ (pc_finish _ _ _ _ _) ltac:(apply P02) E). }
  apply bind_inv in E as (penv & w2' & Eg & E). apply gets_inv in Eg as [-> ->].
  apply bind_inv in E as (env & w3 & E3 & E).
  pose proof (pc_run _ _ _ _ (pc_strv_concat _ _) ltac:(apply P02) E3) as P3.
  assert (P03 : pcpost w w3) by (eapply pcpost_trans; eassumption).
  destruct env as [env|].
  2:{ apply bind_inv in E as (e & w3' & Eg & E). apply gets_inv in Eg as [-> ->].
      apply Hdone. eapply pcpost_trans; [exact P03|]. exact (pc_run _ _ _ _ (pc_finish _ _ _ _ _) ltac:(apply P03) E). }
  apply bind_inv in E as (r4 & w4 & E4 & E).
  assert (C3 : w_cur w3 = w_cur w) by apply P03.
  assert (M3 : pr_mask (curp w3) = pr_mask (curp w)) by apply (pcpost_mask _ _ P03).
  destruct P03 as (W3 & _ & S3 & (l3 & T3) & B3).
  assert (Hk3 : kp (w_cur w3) (start_child_part prd pwr argv pg (Some env) o ck)) by (rewrite C3; apply kp_start_child_part, Hk).
  destruct (process_fork_restores _ _ _ _ _ W3 ltac:(rewrite C3; exact Hpos) Hk3 ltac:(rewrite M3; exact Hcanon) E4) as [Q4 R4].
  rewrite M3, T3 in R4.
  assert (R4' : Rst (pr_mask (curp w)) (w_trace w) w4).
  { destruct R4 as [R4|R4]; [left; exact R4|right; eapply sigfail_base; exact R4]. }
  assert (Q04 : pq w w4).
  { eapply pq_trans; [|exact Q4]. apply pq_of_pcpost. split; [exact W3|]. split; [exact C3|]. split; [exact S3|]. split; [exists l3; exact T3|exact B3]. }
  assert (Hrest : forall w5, pcpost w4 w5 -> pq w w5 /\ Rst (pr_mask (curp w)) (w_trace w) w5).
  { intros w5 P5. split; [eapply pq_pc; eassumption|eapply Rst_pc; eassumption]. }
  destruct (r4 <? 0).
  { apply Hrest. exact (pc_run _ _ _ _ (pc_finish _ _ _ _ _) ltac:(apply Q4) E). }
  apply bind_inv in E as (x5 & w5 & E5 & E). pose proof (pc_run _ _ _ _ (pc_pipe_destroy _) ltac:(apply Q4) E5) as P5.
  apply bind_inv in E as ([q rs] & w6 & E6 & E). pose proof (pc_run _ _ _ _ (pc_read_errpipe _) ltac:(apply P5) E6) as P6.
  cbv beta iota zeta in E.
  assert (P46 : pcpost w4 w6) by (eapply pcpost_trans; eassumption).
  destruct (0 <? (if q <? 0 then 0 else decode_int (runs_bytes rs))).
  - apply bind_inv in E as ([rw stw] & w7 & E7 & E). pose proof (pc_run _ _ _ _ (pc_waitpid_child _) ltac:(apply P6) E7) as P7.
    cbv beta iota in E.
    apply bind_inv in E as (r8 & w8 & E8 & E).
    assert (P8 : pcpost w7 w8).
    { destruct (rw <? 0).
      - apply bind_inv in E8 as (e & w8' & Eg & E8). apply gets_inv in Eg as [-> ->]. apply ret_inv in E8 as [_ ->]. apply pcpost_refl, P7.
      - apply ret_inv in E8 as [_ ->]. apply pcpost_refl, P7. }
    apply Hrest. eapply pcpost_trans; [exact P46|]. eapply pcpost_trans; [exact P7|]. eapply pcpost_trans; [exact P8|].
    exact (pc_run _ _ _ _ (pc_finish _ _ _ _ _) ltac:(apply P8) E).
  - apply Hrest. eapply pcpost_trans; [exact P46|]. exact (pc_run _ _ _ _ (pc_finish _ _ _ _ _) ltac:(apply P6) E).
Qed.

(* ================= 4. reproc_start ================= *)
Lemma pc_sys_getfl fd : pc (sys_getfl fd).
Proof. unfold sys_getfl. repeat pc_step. Qed.
Lemma pc_sys_setfl fd v : pc (sys_setfl fd v).
Proof. unfold sys_setfl. repeat pc_step. Qed.
Lemma pc_sys_fileno f : pc (sys_fileno f).
Proof. unfold sys_fileno. repeat pc_step. Qed.
Lemma pc_sys_clock : pc sys_clock.
Proof. unfold sys_clock. repeat pc_step. Qed.
Lemma pc_sys_open path flags mode : pc (sys_open path flags mode).
Proof.
  unfold sys_open. apply pc_bind; [apply pc_prelude|]. intros [e|]; [apply pc_fail|].
  apply pc_bind; [apply pc_get|]. intros w0. cbv zeta.
  assert (Hmk : forall ob, pc (match fd_alloc (pr_fds (curp w0)) (pr_rlimit (curp w0)) with
                               | Some fd => set_cur_fds (<[fd := {| f_obj := ob; f_cloexec := has_bit flags O_CLOEXEC; f_nonblock := has_bit flags O_NONBLOCK |}]> (pr_fds (curp w0)));>
                                            done COpen [flags; mode] [path] fd []
                               | None => fail COpen [flags; mode] [path] EMFILE end)).
  { intros ob. destruct (fd_alloc _ _); [|apply pc_fail]. apply pc_bind; [apply pc_set_cur_fds|]. intros _. apply pc_done. }
  destruct (str_eqb _ dev_null); [apply Hmk|].
  destruct (fs_lookup _ w0) as [k1|].
  - destruct k1; try apply Hmk; try apply pc_fail.
    destruct (acc_of_flags flags); try apply pc_fail; apply Hmk.
  - destruct (has_bit flags O_CREAT); [|apply pc_fail].
    destruct (fs_lookup _ w0) as [k2|]; [|apply pc_fail].
    destruct k2; try apply pc_fail.
    apply pc_bind; [|intros _; apply Hmk]. apply pc_modify. mod_ok.
Qed.
Lemma pc_pipe_nonblocking p en : pc (pipe_nonblocking p en).
Proof.
  unfold pipe_nonblocking. apply pc_bind; [apply pc_sys_getfl|]. intros r.
  destruct (r <? 0); [apply pc_bind; [apply pc_get_errno|intros e; apply pc_ret]|]. cbn zeta.
  apply pc_bind; [apply pc_sys_setfl|]. intros r2.
  destruct (r2 <? 0); [apply pc_bind; [apply pc_get_errno|intros e; apply pc_ret]|apply pc_ret].
Qed.
Lemma pc_redirect_path child stream path : pc (redirect_path child stream path).
Proof.
  unfold redirect_path. apply pc_bind; [apply pc_sys_open|]. intros r.
  destruct (r <? 0); [apply pc_bind; [apply pc_get_errno|intros e; apply pc_ret]|apply pc_ret].
Qed.
Lemma pc_redirect_file child f : pc (redirect_file child f).
Proof.
  unfold redirect_file. apply pc_bind; [apply pc_sys_fileno|]. intros r.
  destruct (r <? 0); [apply pc_bind; [apply pc_get_errno|intros e; apply pc_ret]|apply pc_ret].
Qed.
Lemma pc_redirect_parent child stream : pc (redirect_parent child stream).
Proof.
  unfold redirect_parent. cbv zeta. destruct (stream_file stream =? 0); [apply pc_ret|].
  apply pc_bind; [apply pc_sys_fileno|]. intros r.
  destruct (r <? 0); [apply pc_bind; [apply pc_get_errno|intros e; apply pc_ret]|].
  apply pc_bind; [apply pc_sys_getfd|]. intros q.
  destruct (q <? 0); [apply pc_bind; [apply pc_get_errno|intros e; apply pc_ret]|apply pc_ret].
Qed.
Lemma pc_redirect_pipe parent child stream nb : pc (redirect_pipe parent child stream nb).
Proof.
  unfold redirect_pipe. apply pc_bind; [apply pc_pipe_init|]. intros [r [[p0 p1]|]].
  - apply pc_bind; [apply pc_pipe_nonblocking|]. intros r2. destruct (r2 <? 0); [|apply pc_ret].
    apply pc_bind; [apply pc_pipe_destroy|]. intros _. apply pc_bind; [apply pc_pipe_destroy|]. intros _. apply pc_ret.
  - apply pc_bind; [apply pc_pipe_destroy|]. intros _. apply pc_bind; [apply pc_pipe_destroy|]. intros _. apply pc_ret.
Qed.
Lemma pc_redirect_init parent child stream rd nb out : pc (redirect_init parent child stream rd nb out).
Proof.
  unfold redirect_init. cbv zeta.
  destruct (rd_type rd =? REPROC_REDIRECT_PIPE).
  { apply pc_bind; [apply pc_redirect_pipe|]. intros [[r p] c]. apply pc_ret. }
  destruct (rd_type rd =? REPROC_REDIRECT_PARENT).
  { apply pc_bind; [apply pc_redirect_parent|]. intros [r c].
    apply pc_bind.
    - destruct (r =? REPROC_EPIPE); [|apply pc_ret].
      apply pc_bind; [apply pc_redirect_path|]. intros [r2 c2]. apply pc_ret.
    - intros [[r2 c2] rd2]. destruct (r2 <? 0); apply pc_ret. }
  destruct (rd_type rd =? REPROC_REDIRECT_DISCARD).
  { apply pc_bind; [apply pc_redirect_path|]. intros [r c]. destruct (r <? 0); apply pc_ret. }
  destruct (rd_type rd =? REPROC_REDIRECT_HANDLE); [apply pc_ret|].
  destruct (rd_type rd =? REPROC_REDIRECT_FILE).
  { apply pc_bind; [apply pc_redirect_file|]. intros [r c]. destruct (r <? 0); apply pc_ret. }
  destruct (rd_type rd =? REPROC_REDIRECT_STDOUT); [apply pc_ret|].
  destruct (rd_type rd =? REPROC_REDIRECT_PATH); [|apply pc_ret].
  destruct (rd_path rd) as [path|]; [|apply pc_ret].
  apply pc_bind; [apply pc_redirect_path|]. intros [r c]. destruct (r <? 0); apply pc_ret.
Qed.
Lemma pc_redirect_destroy child ty : pc (redirect_destroy child ty).
Proof.
  unfold redirect_destroy. destruct (child =? HANDLE_INVALID); [apply pc_ret|].
  destruct (redirect_destroy_closes ty); [|apply pc_ret].
  apply pc_bind; [apply pc_handle_destroy|]. intros _. apply pc_ret.
Qed.
Lemma pc_start_finish p r o cin cout cerr cexit : pc (start_finish p r o cin cout cerr cexit).
Proof.
  unfold start_finish. apply pc_bind; [apply pc_redirect_destroy|]. intros _.
  apply pc_bind; [apply pc_redirect_destroy|]. intros co. apply pc_bind; [apply pc_redirect_destroy|]. intros ce.
  apply pc_bind. { destruct (r =? 0); [apply pc_ret|]. apply pc_bind; [apply pc_pipe_destroy|]. intros _. apply pc_ret. }
  intros _. destruct (r <? 0).
  - apply pc_bind; [apply pc_pipe_destroy|]. intros i. apply pc_bind; [apply pc_pipe_destroy|]. intros ou.
    apply pc_bind; [apply pc_pipe_destroy|]. intros e. apply pc_bind; [apply pc_pipe_destroy|]. intros x. apply pc_ret.
  - destruct (r =? 0); apply pc_ret.
Qed.

(* write by the current process: children may run while it blocks *)
Lemma pc_sys_write fd data : pc (sys_write fd data).
Proof.
  unfold sys_write. cbn zeta. apply pc_bind; [apply pc_prelude|]. intros [e|]; [apply pc_failb|].
  apply pc_bind; [apply pc_gets|]. intros t. destruct (t !! fd) as [d|]; [|apply pc_fail].
  destruct (f_obj d) as [q|q|a|pa a|id a]; try apply pc_fail; try apply pc_done.
  intros w W.
  destruct (write_loop_frame (w_cur w) (Z.to_nat (runs_len data / pipe_atomic) + total_weight w * 2 + 8)%nat q (f_nonblock d) data 0 w (wf_lib_at _ W)) as [K F].
  unfold flat in F. injection F as Ft Fc _ _ _ _ _ Fb _ _.
  assert (P1 : pcpost w (wr_world (write_loop (Z.to_nat (runs_len data / pipe_atomic) + total_weight w * 2 + 8)%nat q (f_nonblock d) data 0 w))).
  { split; [eapply keeps_wf; eassumption|]. split; [exact Fc|].
    split; [unfold curp; rewrite Fc, (keeps_get_proc _ _ _ K); apply same_caller_refl|]. split; [exists []; exact Ft|rewrite Fb; apply Z.le_refl]. }
  destruct (write_loop _ q (f_nonblock d) data 0 w) as [n w1|e w1|w1|w1]; cbn [wr_world] in *; auto.
  - assert (H1 : pc (log CWrite [fd; runs_len data] [] n [] (w_time w1 - w_time w);> ret n)) by (repeat pc_step).
    specialize (H1 w1 ltac:(apply P1)).
    destruct ((log CWrite [fd; runs_len data] [] n [] (w_time w1 - w_time w);> ret n) w1); auto.
    exact (pcpost_trans _ _ _ P1 H1).
  - assert (H1 : pc (set_errno e;> log CWrite [fd; runs_len data] [] (-1) [] (w_time w1 - w_time w);> ret (-1))) by (repeat pc_step).
    specialize (H1 w1 ltac:(apply P1)).
    destruct ((set_errno e;> log CWrite [fd; runs_len data] [] (-1) [] (w_time w1 - w_time w);> ret (-1)) w1); auto.
    exact (pcpost_trans _ _ _ P1 H1).
Qed.
Lemma pc_pipe_write p data : pc (pipe_write p data).
Proof.
  unfold pipe_write. apply pc_bind; [apply pc_sys_write|]. intros r.
  destruct (r <? 0); [apply pc_bind; [apply pc_get_errno|intros e; apply pc_ret]|apply pc_ret].
Qed.
Lemma pc_input_loop fuel pipe src : forall written size, pc (input_loop fuel pipe src written size).
Proof.
  induction fuel as [|f IH]; intros written size; cbn [input_loop]; [apply pc_crash|].
  destruct (written <? size); [|apply pc_ret].
  apply pc_bind; [apply pc_pipe_write|]. intros r. destruct (r <? 0); [apply pc_ret|apply IH].
Qed.
Lemma pc_setup_input pipe hd src size : pc (setup_input pipe hd src size).
Proof.
  unfold setup_input. destruct (negb hd); [apply pc_ret|].
  apply pc_bind; [apply pc_pipe_nonblocking|]. intros r. destruct (r <? 0); [apply pc_ret|].
  apply pc_bind; [apply pc_input_loop|]. intros r2. destruct (r2 <? 0); [apply pc_ret|].
  apply pc_bind; [apply pc_pipe_destroy|]. intros p. apply pc_ret.
Qed.
Lemma pc_now : pc now.
Proof. unfold now. apply pc_bind; [apply pc_sys_clock|]. intros [s n]. apply pc_ret. Qed.

(* the exit block run by a fork-mode child *)
Lemma kp_redirect_destroy k child ty : kp k (redirect_destroy child ty).
Proof.
  unfold redirect_destroy. destruct (child =? HANDLE_INVALID); [apply kp_ret|].
  destruct (redirect_destroy_closes ty); [|apply kp_ret].
  apply kp_bind; [apply kp_handle_destroy|]. intros _. apply kp_ret.
Qed.
Lemma kp_start_finish k p r o cin cout cerr cexit : kp k (start_finish p r o cin cout cerr cexit).
Proof.
  unfold start_finish. apply kp_bind; [apply kp_redirect_destroy|]. intros _.
  apply kp_bind; [apply kp_redirect_destroy|]. intros co. apply kp_bind; [apply kp_redirect_destroy|]. intros ce.
  apply kp_bind. { destruct (r =? 0); [apply kp_ret|]. apply kp_bind; [apply kp_pipe_destroy|]. intros _. apply kp_ret. }
  intros _. destruct (r <? 0).
  - apply kp_bind; [apply kp_pipe_destroy|]. intros i. apply kp_bind; [apply kp_pipe_destroy|]. intros ou.
    apply kp_bind; [apply kp_pipe_destroy|]. intros e. apply kp_bind; [apply kp_pipe_destroy|]. intros x. apply kp_ret.
  - destruct (r =? 0); apply kp_ret.
Qed.

(* THE THEOREM at the API: on every return path of start — success or failure, whatever the fault
   plan makes fail, whatever the child does before and after exec — the caller's signal
   dispositions, working directory and environment are what they were, and so is its signal mask
   unless the fault plan made a pthread_sigmask call itself fail. *)
Theorem reproc_start_restores p argv o0 src ck w r p' w' :
  wf w -> 0 <= w_cur w -> (forall pc0, kp (w_cur w) (ck pc0)) ->
  norm_mask (pr_mask (curp w)) = pr_mask (curp w) ->
  reproc_start p argv o0 src ck w = Ret (r, p') w' ->
  pq w w' /\ Rst (pr_mask (curp w)) (w_trace w) w'.
Proof.
  intros W Hpos Hk Hcanon E. unfold reproc_start in E.
  assert (Hdone : forall w1, pcpost w w1 -> pq w w1 /\ Rst (pr_mask (curp w)) (w_trace w) w1).
  { intros w1 P. split; [apply pq_of_pcpost, P|left; apply (pcpost_mask _ _ P)]. }
  destruct (negb (h_status p =? STATUS_NOT_STARTED)).
  { apply ret_inv in E as [_ ->]. apply Hdone, pcpost_refl, W. }
  destruct (parse_options o0 (argv_form_of argv)) as [o|].
  2:{ apply Hdone. exact (pc_run _ _ _ _ (pc_start_finish _ _ _ _ _ _ _) W E). }
  apply bind_inv in E as ([[[r1 pin] cin] rdi] & w1 & E1 & E). cbv beta iota zeta in E.
  pose proof (pc_run _ _ _ _ (pc_redirect_init _ _ _ _ _ _) W E1) as P1.
  destruct (r1 <? 0).
  { apply Hdone. eapply pcpost_trans; [exact P1|]. exact (pc_run _ _ _ _ (pc_start_finish _ _ _ _ _ _ _) ltac:(apply P1) E). }
  apply bind_inv in E as ([[[r2 pout] cout] rdo] & w2 & E2 & E). cbv beta iota zeta in E.
  pose proof (pcpost_trans _ _ _ P1 (pc_run _ _ _ _ (pc_redirect_init _ _ _ _ _ _) ltac:(apply P1) E2)) as P2.
  destruct (r2 <? 0).
  { apply Hdone. eapply pcpost_trans; [exact P2|]. exact (pc_run _ _ _ _ (pc_start_finish _ _ _ _ _ _ _) ltac:(apply P2) E). }
  apply bind_inv in E as ([[[r3 perr] cerr] rde] & w3 & E3 & E). cbv beta iota zeta in E.
  pose proof (pcpost_trans _ _ _ P2 (pc_run _ _ _ _ (pc_redirect_init _ _ _ _ _ _) ltac:(apply P2) E3)) as P3.
  destruct (r3 <? 0).
  { apply Hdone. eapply pcpost_trans; [exact P3|]. exact (pc_run _ _ _ _ (pc_start_finish _ _ _ _ _ _ _) ltac:(apply P3) E). }
  apply bind_inv in E as ([r4 pp] & w4 & E4 & E). cbv beta iota zeta in E.
  pose proof (pcpost_trans _ _ _ P3 (pc_run _ _ _ _ pc_pipe_init ltac:(apply P3) E4)) as P4.
  destruct pp as [[pexit cexit]|].
  2:{ apply Hdone. eapply pcpost_trans; [exact P4|]. exact (pc_run _ _ _ _ (pc_start_finish _ _ _ _ _ _ _) ltac:(apply P4) E). }
  apply bind_inv in E as ([r5 pin5] & w5 & E5 & E). cbv beta iota zeta in E.
  pose proof (pcpost_trans _ _ _ P4 (pc_run _ _ _ _ (pc_setup_input _ _ _ _) ltac:(apply P4) E5)) as P5.
  destruct (r5 <? 0).
  { apply Hdone. eapply pcpost_trans; [exact P5|]. exact (pc_run _ _ _ _ (pc_start_finish _ _ _ _ _ _ _) ltac:(apply P5) E). }
  apply bind_inv in E as ([r6 h6] & w6 & E6 & E). cbv beta iota zeta in E.
  assert (C5 : w_cur w5 = w_cur w) by apply P5.
  assert (M5 : pr_mask (curp w5) = pr_mask (curp w)) by apply (pcpost_mask _ _ P5).
  destruct (pq_of_pcpost _ _ P5) as (W5 & _ & S5 & l5 & T5).
  match type of E6 with process_start _ _ _ ?k _ = _ => assert (Hk5 : kp (w_cur w5) k) end.
  { rewrite C5. apply kp_bind; [apply kp_start_finish|]. intros [x pc0]. apply Hk. }
  destruct (process_start_restores _ _ _ _ _ _ _ _ W5 ltac:(rewrite C5; exact Hpos) Hk5 ltac:(rewrite M5; exact Hcanon) E6) as [Q6 R6].
  rewrite M5, T5 in R6.
  assert (R6' : Rst (pr_mask (curp w)) (w_trace w) w6).
  { destruct R6 as [R6|R6]; [left; exact R6|right; eapply sigfail_base; exact R6]. }
  assert (Q06 : pq w w6) by (eapply pq_trans; [apply pq_of_pcpost, P5|exact Q6]).
  assert (Hrest : forall w7, pcpost w6 w7 -> pq w w7 /\ Rst (pr_mask (curp w)) (w_trace w) w7).
  { intros w7 P7. split; [eapply pq_pc; eassumption|eapply Rst_pc; eassumption]. }
  destruct (r6 <? 0).
  { apply Hrest. exact (pc_run _ _ _ _ (pc_start_finish _ _ _ _ _ _ _) ltac:(apply Q6) E). }
  apply bind_inv in E as (dl & w7 & E7 & E).
  assert (P7 : pcpost w6 w7).
  { destruct (negb (o_deadline _ =? REPROC_INFINITE)).
    - apply bind_inv in E7 as (n & w7' & En & E7). apply ret_inv in E7 as [_ ->].
      exact (pc_run _ _ _ _ pc_now ltac:(apply Q6) En).
    - apply ret_inv in E7 as [_ ->]. apply pcpost_refl, Q6. }
  apply Hrest. eapply pcpost_trans; [exact P7|]. exact (pc_run _ _ _ _ (pc_start_finish _ _ _ _ _ _ _) ltac:(apply P7) E).
Qed.

(* ---- canonical masks: what pthread_sigmask installs is a fixed point of the normalisation ---- *)
Lemma memZ_filter x P l : (forall y, y = x -> P y = P x) -> memZ x (filter P l) = P x && memZ x l.
Proof.
  intros _. unfold memZ. induction l as [|y l IH]; cbn [filter existsb]; [destruct (P x); reflexivity|].
  destruct (P y) eqn:Py; cbn [existsb]; rewrite IH.
  - destruct (Z.eqb_spec x y) as [->|Hn]; [rewrite Py; reflexivity|]. cbn [orb]. reflexivity.
  - destruct (Z.eqb_spec x y) as [->|Hn]; [rewrite Py; reflexivity|]. reflexivity.
Qed.
Lemma norm_mask_idem s : norm_mask (norm_mask s) = norm_mask s.
Proof.
  unfold norm_mask at 1 3. apply filter_ext_in. intros x Hx.
  unfold norm_mask. rewrite memZ_filter by (intros y ->; reflexivity).
  assert (Hm : memZ x all_signals = true). { unfold memZ. apply existsb_exists. exists x. split; [exact Hx|apply Z.eqb_refl]. }
  rewrite Hm. destruct (memZ x s), (x =? SIGKILL), (x =? SIGSTOP); reflexivity.
Qed.
