(* OptProofs.v — C13: the Gallina transcription of options.c (LibPure.parse_redirect,
   parse_stop_actions, parse_options; with the D13 fix) against the documentation-derived
   specification OptSpec.v.  All statements are for ALL values (types, handles, FILE ids
   arbitrary Z; paths arbitrary strings); the proofs are case analyses on the tests the
   code performs.  Properties_C13.v restates the results that make up property C13. *)
From Verif Require Import LibPure OptSpec.
From Coq Require Import Lia Btauto.
Local Open Scope Z_scope.

(** * One stream: parse_redirect *)

(* The spec's clauses as they bear on one call of parse_redirect. *)
Definition stream_ok_at (r : redirect) (s : Z) (parent discard : bool) (file : Z) (path : option str) : bool :=
  one_target r && has_handle r && has_file r && has_path r && stdout_only_err r s
  && ((negb (file =? 0) || isSome path) ==> negb (redirect_set r))
  && (negb (file =? 0) ==> negb parent && negb discard && negb (isSome path))
  && (isSome path ==> negb parent && negb discard && (file =? 0))
  && negb (parent && discard && negb (redirect_set r)).

Definition resolve_at (r : redirect) (s : Z) (parent discard : bool) (file : Z) (path : option str) : redirect :=
  {| rd_type := match explicit r with
                | Some t => t
                | None => if negb (file =? 0) then REPROC_REDIRECT_FILE
                          else if isSome path then REPROC_REDIRECT_PATH
                          else if parent then REPROC_REDIRECT_PARENT
                          else if discard then REPROC_REDIRECT_DISCARD
                          else if s =? ERR then REPROC_REDIRECT_PARENT else REPROC_REDIRECT_PIPE
                end;
     rd_handle := rd_handle r;
     rd_file := if negb (file =? 0) then file else rd_file r;
     rd_path := if isSome path then path else rd_path r |}.

(* The values the code compares a type with. *)
Lemma type_cases (t : Z) :
  t = 0 \/ t = 4 \/ t = 5 \/ t = 6 \/ t = 7 \/
  ((t =? 0) = false /\ (t =? 4) = false /\ (t =? 5) = false /\ (t =? 6) = false /\ (t =? 7) = false).
Proof.
  destruct (Z.eqb_spec t 0); [tauto|]. destruct (Z.eqb_spec t 4); [tauto|].
  destruct (Z.eqb_spec t 5); [tauto|]. destruct (Z.eqb_spec t 6); [tauto|].
  destruct (Z.eqb_spec t 7); [tauto|]. right; right; right; right; right. tauto.
Qed.

Ltac unf_redirect := cbv beta iota zeta delta
  [parse_redirect stream_ok_at resolve_at redirect_is_set rd_set_type one_target has_handle has_file has_path
   stdout_only_err redirect_set type_set handle_set file_set path_set type_unset_or explicit isSome
   rd_type rd_handle rd_file rd_path
   REPROC_REDIRECT_DEFAULT REPROC_REDIRECT_PIPE REPROC_REDIRECT_PARENT REPROC_REDIRECT_DISCARD
   REPROC_REDIRECT_STDOUT REPROC_REDIRECT_HANDLE REPROC_REDIRECT_FILE REPROC_REDIRECT_PATH
   REPROC_STREAM_ERR negb orb andb].

(* parse_redirect rejects exactly when a clause fails, and otherwise resolves as documented.
   Case analysis: every test of the code is one of  file =? 0, path, h =? 0, f =? 0, p,
   parent, discard, s =? ERR, t =? {0,4,5,6,7}; each is destructed once (with eqn:), the type
   through [type_cases]; the branches are then closed by computation. *)
Lemma parse_redirect_char r s parent discard file path :
  parse_redirect r s parent discard file path =
  if stream_ok_at r s parent discard file path
  then Some (resolve_at r s parent discard file path) else None.
Proof.
  destruct r as [t h f p].
  destruct (file =? 0) eqn:EF.
  all: destruct path as [pa|].
  all: destruct (h =? 0) eqn:Eh.
  all: destruct (f =? 0) eqn:Ef.
  all: destruct p as [pp|].
  all: destruct parent, discard.
  all: destruct (s =? 2) eqn:Es.
  all: destruct (type_cases t) as [->|[->|[->|[->|[->|(E0&E4&E5&E6&E7)]]]]].
  all: unf_redirect.
  all: repeat (progress (cbn; rewrite ?EF, ?Eh, ?Ef, ?Es, ?E0, ?E4, ?E5, ?E6, ?E7)).
  all: reflexivity.
Qed.

Lemma parse_redirect_none_iff r s parent discard file path :
  parse_redirect r s parent discard file path = None <-> stream_ok_at r s parent discard file path = false.
Proof.
  rewrite parse_redirect_char. destruct (stream_ok_at r s parent discard file path); split; congruence.
Qed.

(** * All options: parse_options *)

Lemma resolve_in o :
  resolve_at (o_in o) IN (o_parent o) (o_discard o) 0 None = doc_resolved_stream o IN.
Proof. reflexivity. Qed.
Lemma resolve_out o :
  resolve_at (o_out o) OUT (o_parent o) (o_discard o) (o_file o) (o_path o) = doc_resolved_stream o OUT.
Proof. reflexivity. Qed.
Lemma resolve_err o :
  resolve_at (o_err o) ERR (o_parent o) (o_discard o) (o_file o) (o_path o) = doc_resolved_stream o ERR.
Proof. reflexivity. Qed.

(* doc_ok regrouped by the call of parse_redirect that checks each clause: pure boolean algebra. *)
Lemma doc_ok_eq o argv :
  doc_ok o argv =
  stream_ok_at (o_in o) IN (o_parent o) (o_discard o) 0 None
  && stream_ok_at (o_out o) OUT (o_parent o) (o_discard o) (o_file o) (o_path o)
  && stream_ok_at (o_err o) ERR (o_parent o) (o_discard o) (o_file o) (o_path o)
  && input_needs_pipe o && input_size_has_data o && fork_without_argv o argv && argv_given o argv.
Proof.
  unfold doc_ok, clauses, stream_clauses, stream_ok_at, shorthand_vs_explicit, shorthands_compatible,
    parent_discard_compete, left_default, sh_file_set, sh_path_set.
  change (stream_of o IN) with (o_in o). change (stream_of o OUT) with (o_out o).
  change (stream_of o ERR) with (o_err o).
  cbn [app forallb snd isSome].
  change (0 =? 0) with true. cbn [negb orb andb].
  generalize (one_target (o_in o)) (has_handle (o_in o)) (has_file (o_in o)) (has_path (o_in o))
             (stdout_only_err (o_in o) IN) (redirect_set (o_in o)).
  generalize (one_target (o_out o)) (has_handle (o_out o)) (has_file (o_out o)) (has_path (o_out o))
             (stdout_only_err (o_out o) OUT) (redirect_set (o_out o)).
  generalize (one_target (o_err o)) (has_handle (o_err o)) (has_file (o_err o)) (has_path (o_err o))
             (stdout_only_err (o_err o) ERR) (redirect_set (o_err o)).
  generalize (input_needs_pipe o) (input_size_has_data o) (fork_without_argv o argv) (argv_given o argv).
  generalize (o_parent o) (o_discard o) (o_file o =? 0) (isSome (o_path o)).
  intros. btauto.
Qed.

(* parse_options rejects exactly when doc_ok fails, and otherwise yields the documented result. *)
Lemma parse_options_char o argv :
  parse_options o argv = if doc_ok o argv then Some (doc_resolved o) else None.
Proof.
  rewrite doc_ok_eq. unfold parse_options.
  rewrite !parse_redirect_char, resolve_in, resolve_out, resolve_err.
  destruct (stream_ok_at (o_in o) IN (o_parent o) (o_discard o) 0 None); [|reflexivity].
  destruct (stream_ok_at (o_out o) OUT (o_parent o) (o_discard o) (o_file o) (o_path o)); [|reflexivity].
  destruct (stream_ok_at (o_err o) ERR (o_parent o) (o_discard o) (o_file o) (o_path o)); [|reflexivity].
  unfold input_needs_pipe, input_size_has_data, fork_without_argv, argv_given.
  change (rd_type (doc_resolved_stream o IN)) with (doc_effective o IN).
  destruct (o_input_data o) eqn:Ed.
  - destruct (doc_effective o IN =? REPROC_REDIRECT_PIPE) eqn:Ep; [|reflexivity].
    destruct (0 <? o_input_size o) eqn:Ez;
      (destruct (o_fork o) eqn:Ef; destruct argv; reflexivity).
  - destruct (0 <? o_input_size o) eqn:Ez; [reflexivity|].
    destruct (o_fork o) eqn:Ef; destruct argv; reflexivity.
Qed.

Lemma parse_options_reject_iff o argv :
  parse_options o argv = None <-> doc_ok o argv = false.
Proof. rewrite parse_options_char. destruct (doc_ok o argv); split; congruence. Qed.

Lemma parse_options_accept o argv o' :
  parse_options o argv = Some o' -> doc_ok o argv = true /\ o' = doc_resolved o.
Proof. rewrite parse_options_char. destruct (doc_ok o argv); [|discriminate]. intros [= <-]. auto. Qed.

(* C13_reject_iff, in the shape asked for (the range hypothesis is not needed by the proof:
   see C13_NOTES.md [S4]). *)
Lemma reject_iff_in_range o argv :
  types_in_range o -> (parse_options o argv = None <-> doc_ok o argv = false).
Proof. intros _. apply parse_options_reject_iff. Qed.

(* C13_effective *)
Definition unchanged_but_resolved (o o' : options) : Prop :=
  o_wd o' = o_wd o /\ o_env_behavior o' = o_env_behavior o /\ o_env_extra o' = o_env_extra o /\
  o_parent o' = o_parent o /\ o_discard o' = o_discard o /\ o_file o' = o_file o /\ o_path o' = o_path o /\
  o_input_data o' = o_input_data o /\ o_input_size o' = o_input_size o /\ o_fork o' = o_fork o /\
  o_nonblocking o' = o_nonblocking o /\
  (forall s, s = IN \/ s = OUT \/ s = ERR ->
     rd_handle (stream_of o' s) = rd_handle (stream_of o s) /\
     rd_file (stream_of o' s) = doc_effective_file o s /\
     rd_path (stream_of o' s) = doc_effective_path o s).

Lemma effective o argv o' :
  parse_options o argv = Some o' ->
  (forall s, s = IN \/ s = OUT \/ s = ERR -> rd_type (stream_of o' s) = doc_effective o s) /\
  (o_deadline o = 0 -> o_deadline o' = REPROC_INFINITE) /\
  (o_deadline o <> 0 -> o_deadline o' = o_deadline o) /\
  (stop_all_noop (o_stop o) = true ->
     st_first (o_stop o') = {| sa_action := REPROC_STOP_WAIT; sa_timeout := REPROC_DEADLINE |} /\
     st_second (o_stop o') = {| sa_action := REPROC_STOP_TERMINATE; sa_timeout := REPROC_INFINITE |} /\
     st_third (o_stop o') = st_third (o_stop o)) /\
  (stop_all_noop (o_stop o) = false -> o_stop o' = o_stop o) /\
  unchanged_but_resolved o o'.
Proof.
  intros H. apply parse_options_accept in H as [_ ->].
  split; [|split; [|split; [|split; [|split]]]].
  - intros s [->|[->| ->]]; reflexivity.
  - intros E. cbn. unfold doc_deadline. rewrite E. reflexivity.
  - intros E. cbn. unfold doc_deadline. apply Z.eqb_neq in E. rewrite E. reflexivity.
  - intros E. cbn. unfold doc_stop. rewrite E. auto.
  - intros E. cbn. unfold doc_stop. rewrite E. reflexivity.
  - unfold unchanged_but_resolved. cbn. repeat (split; [reflexivity|]).
    intros s [->|[->| ->]]; repeat split; reflexivity.
Qed.

(** * Validation looks at the options alone, and only at their validation-relevant shape *)

(* The decision is a function of: each type up to the comparisons made with it, whether each
   handle/file/path (member or shorthand) is set, parent, discard, whether input data is given,
   whether its size is positive, fork, and the form of argv.  In particular it does not depend
   on the working directory, the environment, the stop actions, the deadline, `nonblocking`,
   the actual handle / FILE / path values, nor on anything outside the two arguments. *)
Definition type_class (t : Z) : Z :=
  if (t =? 0) || (t =? 1) || (t =? 4) || (t =? 5) || (t =? 6) || (t =? 7) then t else 2.
Definition rshape (r : redirect) : Z * bool * bool * bool :=
  (type_class (rd_type r), handle_set r, file_set r, path_set r).
Definition shape (o : options) (argv : argv_form) :=
  (rshape (o_in o), rshape (o_out o), rshape (o_err o),
   (o_parent o, o_discard o, sh_file_set o, sh_path_set o),
   (o_input_data o, 0 <? o_input_size o, o_fork o, argv)).

Lemma type_class_eqb t1 t2 c :
  type_class t1 = type_class t2 -> (c = 0 \/ c = 1 \/ c = 4 \/ c = 5 \/ c = 6 \/ c = 7) ->
  (t1 =? c) = (t2 =? c).
Proof.
  unfold type_class. intros H Hc.
  destruct (Z.eqb_spec t1 0), (Z.eqb_spec t1 1), (Z.eqb_spec t1 4), (Z.eqb_spec t1 5),
    (Z.eqb_spec t1 6), (Z.eqb_spec t1 7); cbn [orb] in H; try lia;
  destruct (Z.eqb_spec t2 0), (Z.eqb_spec t2 1), (Z.eqb_spec t2 4), (Z.eqb_spec t2 5),
    (Z.eqb_spec t2 6), (Z.eqb_spec t2 7); cbn [orb] in H; try lia;
  destruct (Z.eqb_spec t1 c), (Z.eqb_spec t2 c); try reflexivity; lia.
Qed.

(* Everything the spec asks of one stream, as a function of its shape. *)
Definition stream_obs (r : redirect) :=
  (one_target r, has_handle r, has_file r, has_path r, redirect_set r,
   rd_type r =? REPROC_REDIRECT_STDOUT,
   match explicit r with Some t => Some (t =? REPROC_REDIRECT_PIPE) | None => None end).

Lemma stream_obs_shape r1 r2 : rshape r1 = rshape r2 -> stream_obs r1 = stream_obs r2.
Proof.
  unfold rshape. intros [= Ht Hh Hf Hp].
  unfold stream_obs, one_target, has_handle, has_file, has_path, redirect_set, type_unset_or, explicit, type_set.
  rewrite Hh, Hf, Hp.
  rewrite (type_class_eqb _ _ REPROC_REDIRECT_DEFAULT Ht), (type_class_eqb _ _ REPROC_REDIRECT_HANDLE Ht),
    (type_class_eqb _ _ REPROC_REDIRECT_FILE Ht), (type_class_eqb _ _ REPROC_REDIRECT_PATH Ht),
    (type_class_eqb _ _ REPROC_REDIRECT_STDOUT Ht) by (cbv; tauto).
  destruct (handle_set r2); [reflexivity|]. destruct (file_set r2); [reflexivity|].
  destruct (path_set r2); [reflexivity|].
  destruct (rd_type r2 =? REPROC_REDIRECT_DEFAULT); cbn [negb]; [reflexivity|].
  rewrite (type_class_eqb _ _ REPROC_REDIRECT_PIPE Ht) by (cbv; tauto). reflexivity.
Qed.

Lemma doc_ok_from_obs o argv :
  doc_ok o argv =
  let '(t1, hh1, hf1, hp1, set1, so1, ex1) := stream_obs (o_in o) in
  let '(t2, hh2, hf2, hp2, set2, so2, ex2) := stream_obs (o_out o) in
  let '(t3, hh3, hf3, hp3, set3, so3, ex3) := stream_obs (o_err o) in
  let par := o_parent o in let dis := o_discard o in
  let F := sh_file_set o in let P := sh_path_set o in
  t1 && hh1 && hf1 && hp1 && negb so1 && t2 && hh2 && hf2 && hp2 && negb so2 && t3 && hh3 && hf3 && hp3
  && ((F || P) ==> negb set2 && negb set3)
  && (F ==> negb par && negb dis && negb P) && (P ==> negb par && negb dis && negb F)
  && negb (par && dis && (negb set1 || negb set2 || negb set3))
  && (o_input_data o ==> match ex1 with Some b => b | None => negb par && negb dis end)
  && ((0 <? o_input_size o) ==> o_input_data o)
  && (o_fork o ==> match argv with ArgvNull => true | _ => false end)
  && (negb (o_fork o) ==> match argv with ArgvOk => true | _ => false end).
Proof.
  unfold doc_ok, clauses, stream_clauses, stream_obs, shorthand_vs_explicit, shorthands_compatible,
    parent_discard_compete, left_default, input_needs_pipe, input_size_has_data, fork_without_argv,
    argv_given, stdout_only_err, doc_effective.
  change (stream_of o IN) with (o_in o). change (stream_of o OUT) with (o_out o).
  change (stream_of o ERR) with (o_err o).
  cbn [app forallb snd].
  change (IN =? ERR) with false. change (OUT =? ERR) with false. change (ERR =? ERR) with true.
  change (IN =? IN) with true. cbn [negb andb].
  assert (Hin : (match explicit (o_in o) with
                 | Some t => t
                 | None => if o_parent o then REPROC_REDIRECT_PARENT
                           else if o_discard o then REPROC_REDIRECT_DISCARD else REPROC_REDIRECT_PIPE
                 end =? REPROC_REDIRECT_PIPE)
                = match explicit (o_in o) with
                  | Some t => t =? REPROC_REDIRECT_PIPE
                  | None => negb (o_parent o) && negb (o_discard o) end).
  { destruct (explicit (o_in o)); [reflexivity|]. destruct (o_parent o), (o_discard o); reflexivity. }
  rewrite Hin. clear Hin.
  destruct (explicit (o_in o)) as [t|];
  generalize (one_target (o_in o)) (has_handle (o_in o)) (has_file (o_in o)) (has_path (o_in o))
             (rd_type (o_in o) =? REPROC_REDIRECT_STDOUT) (redirect_set (o_in o));
  generalize (one_target (o_out o)) (has_handle (o_out o)) (has_file (o_out o)) (has_path (o_out o))
             (rd_type (o_out o) =? REPROC_REDIRECT_STDOUT) (redirect_set (o_out o));
  generalize (one_target (o_err o)) (has_handle (o_err o)) (has_file (o_err o)) (has_path (o_err o))
             (rd_type (o_err o) =? REPROC_REDIRECT_STDOUT) (redirect_set (o_err o));
  generalize (o_input_data o) (0 <? o_input_size o) (o_fork o) (o_parent o) (o_discard o)
             (sh_file_set o) (sh_path_set o);
  [generalize (t =? REPROC_REDIRECT_PIPE)|]; intros; destruct argv; btauto.
Qed.

Lemma doc_ok_shape o1 a1 o2 a2 : shape o1 a1 = shape o2 a2 -> doc_ok o1 a1 = doc_ok o2 a2.
Proof.
  unfold shape, rshape. intros [= Hi1 Hi2 Hi3 Hi4 Ho1 Ho2 Ho3 Ho4 He1 He2 He3 He4 Hpar Hdis HF HP Hd Hz Hf Ha].
  assert (Hi : rshape (o_in o1) = rshape (o_in o2)) by (unfold rshape; congruence).
  assert (Ho : rshape (o_out o1) = rshape (o_out o2)) by (unfold rshape; congruence).
  assert (He : rshape (o_err o1) = rshape (o_err o2)) by (unfold rshape; congruence).
  rewrite !doc_ok_from_obs.
  rewrite (stream_obs_shape _ _ Hi), (stream_obs_shape _ _ Ho), (stream_obs_shape _ _ He).
  rewrite Hpar, Hdis, HF, HP, Hd, Hz, Hf, Ha. reflexivity.
Qed.

Lemma validation_pure o1 a1 o2 a2 :
  shape o1 a1 = shape o2 a2 -> (parse_options o1 a1 = None <-> parse_options o2 a2 = None).
Proof. intros H. rewrite !parse_options_reject_iff, (doc_ok_shape _ _ _ _ H). tauto. Qed.

(** * Types outside the enumeration *)

Definition with_streams (i ou e : redirect) (x : options) : options :=
  {| o_wd := o_wd x; o_env_behavior := o_env_behavior x; o_env_extra := o_env_extra x;
     o_in := i; o_out := ou; o_err := e; o_parent := o_parent x; o_discard := o_discard x;
     o_file := o_file x; o_path := o_path x; o_stop := o_stop x; o_deadline := o_deadline x;
     o_input_data := o_input_data x; o_input_size := o_input_size x; o_fork := o_fork x;
     o_nonblocking := o_nonblocking x |}.
Definition only_type (t : Z) : redirect := {| rd_type := t; rd_handle := 0; rd_file := 0; rd_path := None |}.

(* What parse_redirect does with a type outside 0..7: it rejects when anything else claims
   the stream (a member handle/file/path, or a file/path shorthand passed to this call), and
   otherwise lets the redirect through untouched, parent/discard notwithstanding. *)
Lemma out_of_range_redirect r s parent discard file path :
  ~ type_in_range (rd_type r) ->
  parse_redirect r s parent discard file path =
  if handle_set r || file_set r || path_set r || negb (file =? 0) || isSome path then None else Some r.
Proof.
  unfold type_in_range, REPROC_REDIRECT_DEFAULT, REPROC_REDIRECT_PATH. intros Hr.
  rewrite parse_redirect_char. destruct r as [t h f p]. cbn [rd_type] in Hr.
  assert (E0 : (t =? 0) = false) by (apply Z.eqb_neq; lia).
  assert (E4 : (t =? 4) = false) by (apply Z.eqb_neq; lia).
  assert (E5 : (t =? 5) = false) by (apply Z.eqb_neq; lia).
  assert (E6 : (t =? 6) = false) by (apply Z.eqb_neq; lia).
  assert (E7 : (t =? 7) = false) by (apply Z.eqb_neq; lia).
  destruct (file =? 0) eqn:EF.
  all: destruct path as [pa|].
  all: destruct (h =? 0) eqn:Eh.
  all: destruct (f =? 0) eqn:Ef.
  all: destruct p as [pp|].
  all: destruct parent, discard.
  all: unf_redirect.
  all: repeat (progress (cbn; rewrite ?EF, ?Eh, ?Ef, ?E0, ?E4, ?E5, ?E6, ?E7)).
  all: reflexivity.
Qed.

(* At the level of parse_options: an out-of-range type on a stream that also has a handle,
   file or path member set, or (stdout/stderr) meets a file/path shorthand, is rejected. *)
Lemma out_of_range_partial o argv :
  (exists s, (s = IN \/ s = OUT \/ s = ERR) /\ ~ type_in_range (rd_type (stream_of o s)) /\
     (handle_set (stream_of o s) || file_set (stream_of o s) || path_set (stream_of o s)
      || (negb (s =? IN) && (sh_file_set o || sh_path_set o))) = true) ->
  parse_options o argv = None.
Proof.
  intros (s & Hs & Hr & Hc). unfold parse_options.
  destruct Hs as [->|[->| ->]]; cbn in Hr, Hc.
  - rewrite (out_of_range_redirect (o_in o) IN _ _ 0 None Hr).
    change (negb (0 =? 0)) with false. cbn [isSome]. rewrite !orb_false_r in *. rewrite Hc. reflexivity.
  - destruct (parse_redirect (o_in o) IN (o_parent o) (o_discard o) 0 None); [|reflexivity].
    rewrite (out_of_range_redirect (o_out o) OUT _ _ _ _ Hr).
    unfold sh_file_set, sh_path_set in Hc. rewrite <- !orb_assoc in *. rewrite Hc. reflexivity.
  - destruct (parse_redirect (o_in o) IN (o_parent o) (o_discard o) 0 None); [|reflexivity].
    destruct (parse_redirect (o_out o) OUT (o_parent o) (o_discard o) (o_file o) (o_path o)); [|reflexivity].
    rewrite (out_of_range_redirect (o_err o) ERR _ _ _ _ Hr).
    unfold sh_file_set, sh_path_set in Hc. rewrite <- !orb_assoc in *. rewrite Hc. reflexivity.
Qed.

(* ... but a bare out-of-range type passes validation: the statement
   "out of range and reached -> rejected" is false for the code. *)
Lemma out_of_range_refuted :
  exists o argv o', ~ type_in_range (rd_type (o_out o)) /\ parse_options o argv = Some o' /\
                    rd_type (o_out o') = rd_type (o_out o).
Proof.
  exists (with_streams redirect_zero (only_type 8) redirect_zero options_zero), ArgvOk.
  eexists. split; [|split].
  - change (~ (0 <= 8 <= 7)). lia.
  - vm_compute. reflexivity.
  - reflexivity.
Qed.

(* Precisely: a bare out-of-range type on any stream is accepted whenever the rest is. *)
Lemma out_of_range_passes o argv :
  doc_ok o argv = true ->
  forall s, s = IN \/ s = OUT \/ s = ERR -> ~ type_in_range (rd_type (stream_of o s)) ->
  exists o', parse_options o argv = Some o' /\ rd_type (stream_of o' s) = rd_type (stream_of o s).
Proof.
  intros Hok s Hs Hr. rewrite parse_options_char, Hok. eexists; split; [reflexivity|].
  assert (Hex : explicit (stream_of o s) = Some (rd_type (stream_of o s))).
  { pose proof Hok as Hok'. rewrite doc_ok_eq in Hok'.
    unfold type_in_range, REPROC_REDIRECT_DEFAULT, REPROC_REDIRECT_PATH in Hr.
    assert (G : forall r s' pa di fi pth, stream_ok_at r s' pa di fi pth = true ->
                ~ (0 <= rd_type r <= 7) -> explicit r = Some (rd_type r)).
    { clear. intros [t h f p] s' pa di fi pth H Hr. cbn [rd_type] in *.
      assert (E0 : (t =? 0) = false) by (apply Z.eqb_neq; lia).
      assert (E5 : (t =? 5) = false) by (apply Z.eqb_neq; lia).
      assert (E6 : (t =? 6) = false) by (apply Z.eqb_neq; lia).
      assert (E7 : (t =? 7) = false) by (apply Z.eqb_neq; lia).
      unfold stream_ok_at in H. rewrite !andb_true_iff in H.
      destruct H as [[[[[[[[H1 _] _] _] _] _] _] _] _].
      revert H1. unfold one_target, explicit, type_unset_or, type_set, handle_set, file_set, path_set,
        REPROC_REDIRECT_DEFAULT, REPROC_REDIRECT_HANDLE, REPROC_REDIRECT_FILE, REPROC_REDIRECT_PATH.
      cbn [rd_type rd_handle rd_file rd_path]. rewrite E0, E5, E6, E7.
      destruct (h =? 0); cbn; [|discriminate].
      destruct (f =? 0); cbn; [|discriminate].
      destruct p; cbn; [discriminate|]. reflexivity. }
    rewrite !andb_true_iff in Hok'. destruct Hok' as [[[[[[Hi Ho] He] _] _] _] _].
    destruct Hs as [->|[->| ->]]; eapply G; eauto. }
  destruct Hs as [->|[->| ->]]; cbn; unfold doc_effective; rewrite Hex; reflexivity.
Qed.
