(* Properties_C14.v — C14: any call sequence follows the documented life cycle; misuse gives
   errors.  Theorems only (proofs in LibSpec.v / LibSpec2.v).  Each holds for every world:
   every fault plan, latency plan and child behaviour. *)
From Verif Require Import Lib WorldSpec LibSpec LibSpec2.
From Coq Require Import Lia.
Local Open Scope Z_scope.

(* a new handle is not started, owns nothing *)
Theorem C14_new_state : forall b, h_status (rp_new b) = STATUS_NOT_STARTED /\ all_invalid (rp_new b) /\ h_handle (rp_new b) = -1.
Proof. exact new_handle_state. Qed.
Print Assumptions C14_new_state.

(* start: the only way out of "not started"; the sign of its result dictates the new state;
   a started (running / exited / in-child) handle rejects start and is left untouched *)
Theorem C14_start_transition : forall p argv o src k, post (reproc_start p argv o src k) (start_post p o argv).
Proof. exact post_reproc_start. Qed.
Print Assumptions C14_start_transition.

(* wait: a negative result leaves the handle exactly as it was; a non-negative result is cached
   as the status (running -> exited), and nothing else about the handle's identity changes *)
Theorem C14_wait_transition : forall p t,
  post (reproc_wait p t) (fun rp' => shrinks p (snd rp') /\ (fst rp' < 0 -> snd rp' = p) /\ (0 <= fst rp' -> h_status (snd rp') = fst rp')).
Proof. intros p t. eapply post_of_emitsR. apply emitsR_reproc_wait. Qed.
Print Assumptions C14_wait_transition.

Theorem C14_stop_transition : forall p a, post (reproc_stop p a) status_result.
Proof. exact post_reproc_stop. Qed.
Print Assumptions C14_stop_transition.

(* operations that need a started process are rejected before start, with no effect on the world *)
Theorem C14_not_started_rejected : forall p w, h_status p = STATUS_NOT_STARTED ->
  reproc_terminate p w = Ret REPROC_EINVAL w /\ reproc_kill p w = Ret REPROC_EINVAL w
  /\ (forall t, reproc_wait p t w = Ret (REPROC_EINVAL, p) w)
  /\ (forall a, reproc_stop p a w = Ret (REPROC_EINVAL, p) w).
Proof.
  intros p w H. unfold reproc_terminate, reproc_kill, reproc_wait, reproc_stop. rewrite H. cbn.
  repeat split; reflexivity.
Qed.
Print Assumptions C14_not_started_rejected.
Theorem C14_not_started_pid : forall p, h_status p = STATUS_NOT_STARTED -> reproc_pid p = REPROC_EINVAL.
Proof. intros p H. unfold reproc_pid. rewrite H. reflexivity. Qed.
Print Assumptions C14_not_started_pid.

(* in the forked child every operation on the handle is rejected *)
Theorem C14_in_child_rejected : forall p w, h_status p = STATUS_IN_CHILD ->
  reproc_terminate p w = Ret REPROC_EINVAL w /\ reproc_kill p w = Ret REPROC_EINVAL w
  /\ (forall t, reproc_wait p t w = Ret (REPROC_EINVAL, p) w)
  /\ (forall a, reproc_stop p a w = Ret (REPROC_EINVAL, p) w)
  /\ (forall s b n, reproc_read p s b n w = Ret (REPROC_EINVAL, [], p) w)
  /\ (forall b d, reproc_write p b d w = Ret (REPROC_EINVAL, p) w)
  /\ (forall s, reproc_close p s w = Ret (REPROC_EINVAL, p) w)
  /\ reproc_pid p = REPROC_EINVAL.
Proof. exact in_child_rejected. Qed.
Print Assumptions C14_in_child_rejected.

(* reads and writes on closed or non-piped streams return the closed-pipe error, untouched world *)
Theorem C14_closed_stream_read : forall p s n w, h_status p <> STATUS_IN_CHILD ->
  (s = REPROC_STREAM_OUT \/ s = REPROC_STREAM_ERR) ->
  (if s =? REPROC_STREAM_OUT then h_out p else h_err p) = PIPE_INVALID ->
  reproc_read p s true n w = Ret (REPROC_EPIPE, [], p) w.
Proof. exact closed_stream_read. Qed.
Print Assumptions C14_closed_stream_read.
Theorem C14_closed_stream_write : forall p d w, h_status p <> STATUS_IN_CHILD -> h_in p = PIPE_INVALID ->
  reproc_write p true d w = Ret (REPROC_EPIPE, p) w.
Proof. exact closed_stream_write. Qed.
Print Assumptions C14_closed_stream_write.

(* closing a stream is idempotent *)
Theorem C14_close_idempotent : forall p s w, h_status p <> STATUS_IN_CHILD ->
  (s = REPROC_STREAM_IN /\ h_in p = -1) \/ (s = REPROC_STREAM_OUT /\ h_out p = -1) \/ (s = REPROC_STREAM_ERR /\ h_err p = -1) ->
  reproc_close p s w = Ret (0, p) w.
Proof. exact close_idempotent. Qed.
Print Assumptions C14_close_idempotent.

(* bad stream numbers / NULL buffers are rejected *)
Theorem C14_bad_arguments : forall p w,
  (forall s b n, s <> REPROC_STREAM_OUT -> s <> REPROC_STREAM_ERR -> h_status p <> STATUS_IN_CHILD -> reproc_read p s b n w = Ret (REPROC_EINVAL, [], p) w)
  /\ (forall s n, h_status p <> STATUS_IN_CHILD -> (s = REPROC_STREAM_OUT \/ s = REPROC_STREAM_ERR) -> reproc_read p s false n w = Ret (REPROC_EINVAL, [], p) w)
  /\ (forall s, h_status p <> STATUS_IN_CHILD -> s <> REPROC_STREAM_IN -> s <> REPROC_STREAM_OUT -> s <> REPROC_STREAM_ERR -> reproc_close p s w = Ret (REPROC_EINVAL, p) w).
Proof. exact bad_arguments_rejected. Qed.
Print Assumptions C14_bad_arguments.

(* once exited the handle is inert *)
Theorem C14_exited_inert : forall p w, 0 <= h_status p ->
  reproc_terminate p w = Ret 0 w /\ reproc_kill p w = Ret 0 w /\ forall t, reproc_wait p t w = Ret (h_status p, p) w.
Proof.
  intros p w H. split; [apply reproc_terminate_cached, H|]. split; [apply reproc_kill_cached, H|].
  intros t. apply reproc_wait_cached, H.
Qed.
Print Assumptions C14_exited_inert.

Example C14_ex : h_status (rp_new 7) = STATUS_NOT_STARTED /\ h_status (rp_with_status 3 (rp_new 7)) = 3.
Proof. split; reflexivity. Qed.
