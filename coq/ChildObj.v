(* ChildObj.v — C10, child side: WHICH OBJECT each of the image's descriptors 0, 1, 2 refers to.
   For every descriptor table the child inherits: if the forked child reaches a successful exec,
   descriptor i of the image is open, is not close-on-exec, and refers to the very object the
   child end chosen for stream i referred to at fork — through the closing loop, the moving of
   low child ends (F_DUPFD_CLOEXEC), the dup2 / close-on-exec loop and the exit handle. *)
From Verif Require Import Lib WorldSpec WorldSpec2 LibSpec ChildSpec.
From Coq Require Import Lia.
Local Open Scope Z_scope.

(* ---- F_DUPFD returns a free slot (pigeonhole over the size of the table) ---- *)
Lemma lowest_free_ge_free {A} (t : gmap Z fdent) : forall fuel i (s : gmap Z A),
  (forall k, i <= k -> is_Some (t !! k) -> is_Some (s !! k)) -> (size s <= fuel)%nat ->
  t !! lowest_free_ge t i fuel = None.
Proof.
  induction fuel as [|f IH]; intros i s Hs Hn; cbn [lowest_free_ge].
  - destruct (t !! i) as [d|] eqn:E; [|reflexivity].
    assert (s = ∅) by (apply map_size_empty_inv; lia). subst s.
    destruct (Hs i ltac:(lia) ltac:(rewrite E; eauto)) as [x Hx]. rewrite lookup_empty in Hx. discriminate.
  - destruct (t !! i) as [d|] eqn:E; [|exact E].
    apply (IH (i + 1) (delete i s)).
    + intros k Hk Hk2. rewrite lookup_delete_ne by lia. apply Hs; [lia|exact Hk2].
    + rewrite map_size_delete_Some by (apply Hs; [lia|rewrite E; eauto]). lia.
Qed.
Lemma dupfd_slot_free (t : gmap Z fdent) i : t !! lowest_free_ge t i (size t) = None.
Proof. apply (lowest_free_ge_free t (size t) i t); [auto|lia]. Qed.

Section ChildObj.
  Variable G : gmap Z fdent -> Prop.
  (* [R i ob]: "ob is the object the caller chose for stream i" — abstract here *)
  Variable R : Z -> obj -> Prop.
  Notation H P m Q := (hoare P m Q (QSG G)).
  Ltac hb := eapply hoare_bind.

  (* every pending source is open and holds the object wanted on its target *)
  Definition SrcOK (t : gmap Z fdent) (l : list (Z * Z)) : Prop :=
    forall fd i, In (fd, i) l -> exists d, t !! fd = Some d /\ R i (f_obj d).
  (* a source below 3 sits on its own target *)
  Definition Shape (l : list (Z * Z)) : Prop :=
    forall fd i, In (fd, i) l -> fd = i \/ 3 <= fd \/ fd < 0.
  Definition sub (t t' : gmap Z fdent) : Prop := forall k d, t !! k = Some d -> t' !! k = Some d.

  Lemma o_child_move_low L : forall l acc t, SrcOK t l ->
    H (stf L t) (child_move_low l 3 acc)
      (fun res w' => exists t', stf L t' w' /\ sub t t' /\
                     (0 <= fst res -> exists l', snd res = rev acc ++ l' /\ map snd l' = map snd l /\ SrcOK t' l' /\ Shape l')).
  Proof.
    induction l as [|[fd i] rest IH]; intros acc t HS; cbn [child_move_low].
    { apply hoare_ret. intros w S. exists t. split; [exact S|]. split; [intros k d X; exact X|].
      intros _. exists []. cbn. rewrite app_nil_r. repeat split; try reflexivity; intros ? ? []. }
    assert (HSr : SrcOK t rest) by (intros a b X; apply HS; right; exact X).
    destruct (HS fd i ltac:(left; reflexivity)) as (d & Efd & Rd).
    destruct (negb (fd =? i) && (0 <=? fd) && (fd <? 3)) eqn:Ec.
    - hb; [apply f_dupfd|]. intros q; cbv beta. rewrite Efd. cbn zeta.
      assert (Hfail : forall e, 0 < e -> H (fun w' => q = -1 /\ stfe L t e w')
                (if q <? 0 then let* e0 := get_errno in ret (- e0, rev acc) else child_move_low rest 3 ((q, i) :: acc))
                (fun res w' => exists t', stf L t' w' /\ sub t t' /\
                     (0 <= fst res -> exists l', snd res = rev acc ++ l' /\ map snd l' = map snd ((fd, i) :: rest) /\ SrcOK t' l' /\ Shape l'))).
      { intros e He. apply hoare_pure. intros ->. cbn. hb; [apply f_get_errno_e|]. intros e0; cbv beta.
        apply hoare_pure. intros ->. apply hoare_ret. intros w S. exists t. split; [exact S|]. split; [intros k x X; exact X|]. cbn. lia. }
      destruct ((0 <=? L) && (L <=? _)); [apply (Hfail EMFILE); unfold EMFILE; lia|].
      set (n := lowest_free_ge t (Z.max 0 3) (size t)).
      assert (Hn : 3 <= n) by (unfold n; pose proof (lowest_free_ge_ge t (size t) (Z.max 0 3)); lia).
      assert (Hfree : t !! n = None) by apply dupfd_slot_free.
      apply hoare_pure. intros ->. destruct (Z.ltb_spec n 0); [lia|].
      set (t1 := <[n := fd_set_cloexec true d]> t).
      assert (Hsub1 : sub t t1).
      { intros k x X. unfold t1. rewrite lookup_insert_ne; [exact X|]. intros ->. rewrite Hfree in X. discriminate. }
      assert (HS1 : SrcOK t1 rest).
      { intros a b X. destruct (HSr a b X) as (x & Ex & Rx). exists x. split; [apply Hsub1, Ex|exact Rx]. }
      eapply hoare_conseq; [| | |apply (IH ((n, i) :: acc) t1 HS1)]; [intros w S; exact S| |intros ? X; exact X].
      intros [r l2] w (t' & S & Hsub & Hl). exists t'. split; [exact S|]. split.
      + intros k x X. apply Hsub, Hsub1, X.
      + intros Hr. destruct (Hl Hr) as (l' & El & Em & HS' & Hsh). exists ((n, i) :: l'). split; [|split; [|split]].
        * rewrite El. cbn [rev]. rewrite <- app_assoc. reflexivity.
        * cbn [map snd]. rewrite Em. reflexivity.
        * intros a b [E|X]; [|apply HS', X]. injection E as <- <-.
          exists (fd_set_cloexec true d). split; [apply Hsub; unfold t1; apply lookup_insert|exact Rd].
        * intros a b [E|X]; [|apply Hsh, X]. injection E as <- <-. right; left; exact Hn.
    - eapply hoare_conseq; [| | |apply (IH ((fd, i) :: acc) t HSr)]; [intros w S; exact S| |intros ? X; exact X].
      intros [r l2] w (t' & S & Hsub & Hl). exists t'. split; [exact S|]. split; [exact Hsub|].
      intros Hr. destruct (Hl Hr) as (l' & El & Em & HS' & Hsh). exists ((fd, i) :: l'). split; [|split; [|split]].
      + rewrite El. cbn [rev]. rewrite <- app_assoc. reflexivity.
      + cbn [map snd]. rewrite Em. reflexivity.
      + intros a b [E|X]; [|apply HS', X]. injection E as <- <-. exists d. split; [apply Hsub, Efd|exact Rd].
      + intros a b [E|X]; [|apply Hsh, X]. injection E as <- <-.
        destruct (Z.eqb_spec fd i); [left; assumption|]. cbn [negb andb] in Ec.
        destruct (Z.leb_spec 0 fd); [|right; right; lia]. destruct (Z.ltb_spec fd 3); [discriminate|right; left; lia].
  Qed.

  (* ---- the dup2 loop ---- *)
  Definition DoneOK (t : gmap Z fdent) (done : list Z) : Prop :=
    forall j, In j done -> exists d, t !! j = Some d /\ R j (f_obj d) /\ f_cloexec d = false.

  Lemma SrcOK_insert_same t l k d d' : t !! k = Some d -> f_obj d' = f_obj d -> SrcOK t l -> SrcOK (<[k := d']> t) l.
  Proof.
    intros Ek Eo HS fd i Hin. destruct (HS fd i Hin) as (x & Ex & Rx).
    destruct (decide (fd = k)) as [->|Hn].
    - exists d'. split; [apply lookup_insert|]. rewrite Eo. rewrite Ek in Ex. injection Ex as <-. exact Rx.
    - exists x. split; [rewrite lookup_insert_ne by congruence; exact Ex|exact Rx].
  Qed.

  Lemma o_child_redirect L : forall l done t,
    NoDup (map snd l) -> (forall j, In j done -> ~ In j (map snd l) /\ 0 <= j <= 2) ->
    (forall fd i, In (fd, i) l -> 0 <= i <= 2) -> Shape l -> SrcOK t l -> DoneOK t done ->
    H (stf L t) (child_redirect l) (fun r w' => exists t', stf L t' w' /\ (0 <= r -> DoneOK t' (done ++ map snd l))).
  Proof.
    induction l as [|[fd i] rest IH]; intros done t Hnd Hdone Hrng Hsh HS HD; cbn [child_redirect].
    { apply hoare_ret. intros w S. exists t. split; [exact S|]. intros _. cbn. rewrite app_nil_r. exact HD. }
    assert (Hi : 0 <= i <= 2) by (apply (Hrng fd i); left; reflexivity).
    cbn [map snd] in Hnd. inversion Hnd as [|x0 l0 Hni Hnd0]; subst x0 l0. clear Hnd. rename Hnd0 into Hnd.
    assert (Hrng' : forall fd' i', In (fd', i') rest -> 0 <= i' <= 2) by (intros; eapply Hrng; right; eassumption).
    assert (Hsh' : Shape rest) by (intros a b X; apply Hsh; right; exact X).
    assert (HSr : SrcOK t rest) by (intros a b X; apply HS; right; exact X).
    assert (Hdone' : forall j, In j (done ++ [i]) -> ~ In j (map snd rest) /\ 0 <= j <= 2).
    { intros j Hj. apply in_app_or in Hj. destruct Hj as [Hj|[<-|[]]]; [|split; assumption].
      destruct (Hdone j Hj) as [A B]. split; [|exact B]. intros X. apply A. right. exact X. }
    destruct (HS fd i ltac:(left; reflexivity)) as (d & Efd & Rd).
    hb; [apply f_dup2|]. intros q; cbv beta. rewrite Efd.
    destruct (Z.ltb_spec i 0); [lia|].
    destruct (Z.eqb_spec fd i) as [->|Hne]; cbn [negb].
    - (* the end already sits on its target: clear close-on-exec *)
      apply hoare_pure. intros ->. destruct (Z.ltb_spec i 0); [lia|].
      hb; [apply f_handle_cloexec|]. intros q0; cbv beta. rewrite Efd.
      apply hoare_pure. intros ->. cbn [Z.ltb Z.compare].
      set (t2 := <[i := fd_set_cloexec false d]> t).
      eapply hoare_conseq; [| | |apply (IH (done ++ [i]) t2 Hnd Hdone' Hrng' Hsh')]; [intros w S; exact S| |intros ? X; exact X| |].
      + intros r w (t' & S & HD'). exists t'. split; [exact S|]. intros Hr. specialize (HD' Hr).
        rewrite <- app_assoc in HD'. exact HD'.
      + apply (SrcOK_insert_same t rest i d); [exact Efd|reflexivity|exact HSr].
      + intros j Hj. apply in_app_or in Hj. destruct Hj as [Hj|[<-|[]]].
        * destruct (HD j Hj) as (x & Ex & Rx & Cx). exists x. split; [|auto].
          unfold t2. rewrite lookup_insert_ne; [exact Ex|]. intros <-. apply (proj1 (Hdone i Hj)). left. reflexivity.
        * exists (fd_set_cloexec false d). split; [apply lookup_insert|]. split; [exact Rd|reflexivity].
    - apply hoare_pure. intros ->. destruct (Z.ltb_spec i 0); [lia|].
      set (t1 := <[i := fd_set_cloexec false d]> t).
      hb; [apply f_handle_cloexec|]. intros q0; cbv beta.
      assert (E1 : t1 !! fd = Some d) by (unfold t1; rewrite lookup_insert_ne by congruence; exact Efd).
      rewrite E1. apply hoare_pure. intros ->. cbn [Z.ltb Z.compare].
      set (t2 := <[fd := fd_set_cloexec true d]> t1).
      (* no pending source is the slot just overwritten *)
      assert (HS1 : SrcOK t1 rest).
      { intros a b X. destruct (HSr a b X) as (x & Ex & Rx). exists x. split; [|exact Rx].
        unfold t1. rewrite lookup_insert_ne; [exact Ex|]. intros <-.
        destruct (Hsh' i b X) as [->|[Hge|Hlt]]; [|lia|lia].
        apply Hni. apply in_map_iff. exists (b, b). auto. }
      eapply hoare_conseq; [| | |apply (IH (done ++ [i]) t2 Hnd Hdone' Hrng' Hsh')]; [intros w S; exact S| |intros ? X; exact X| |].
      + intros r w (t' & S & HD'). exists t'. split; [exact S|]. intros Hr. specialize (HD' Hr).
        rewrite <- app_assoc in HD'. exact HD'.
      + apply (SrcOK_insert_same t1 rest fd d); [exact E1|reflexivity|exact HS1].
      + assert (Hfd : forall j, In j (done ++ [i]) -> j <> fd).
        { intros j Hj ->. destruct (Hdone' fd Hj) as [_ Hr]. destruct (Hsh fd i ltac:(left; reflexivity)) as [E|[E|E]]; [congruence|lia|lia]. }
        intros j Hj. pose proof (Hfd j Hj) as Hjf. apply in_app_or in Hj. destruct Hj as [Hj|[<-|[]]].
        * destruct (HD j Hj) as (x & Ex & Rx & Cx). exists x. split; [|auto].
          unfold t2, t1. rewrite lookup_insert_ne by congruence. rewrite lookup_insert_ne; [exact Ex|].
          intros <-. apply (proj1 (Hdone i Hj)). left. reflexivity.
        * exists (fd_set_cloexec false d). split; [|split; [exact Rd|reflexivity]].
          unfold t2, t1. rewrite lookup_insert_ne by congruence. apply lookup_insert.
  Qed.

  (* ---- the child side of process_start, exec mode ---- *)
  Lemma o_start_child L t prd pwr av pg env o (k : MW unit) :
    SrcOK t [(po_in o, 0); (po_out o, 1); (po_err o, 2)] ->
    (forall t', DoneOK t' [0; 1; 2] -> G t') ->
    H (stf L t) (start_child_part prd pwr (Some av) pg env o k) (fun _ _ => False).
  Proof.
    intros HS HG. unfold start_child_part.
    assert (Hfp : forall t0 r, H (stf L t0) (sys_write pwr [RLit (encode_int (- r))] ;> sys__exit 1) (fun _ _ => False))
      by (intros; apply f_fail_path).
    change (imap (fun i e => (start_fd_val o prd pwr e, Z.of_nat i)) start_redirect)
      with [(po_in o, 0); (po_out o, 1); (po_err o, 2)].
    change (zlen [(po_in o, 0); (po_out o, 1); (po_err o, 2)]) with 3.
    hb; [apply (o_child_move_low L _ [] t HS)|]. intros [r l1]; cbv beta.
    apply hoare_pre. intros w (t1 & S1 & Hsub & Hl).
    destruct (Z.ltb_spec r 0) as [Hr0|Hr0].
    { eapply hoare_conseq with (P := stf L t1); [intros ? ->; exact S1|intros a w' X; exact X|intros w' X; exact X|]. apply Hfp. }
    destruct (Hl ltac:(cbn; lia)) as (l' & El & Em & HS1 & Hsh1). cbn [snd rev app] in El. subst l1.
    eapply hoare_conseq with (P := stf L t1); [intros ? ->; exact S1|intros a w' X; exact X|intros w' X; exact X|].
    clear w S1 Hl. cbn [map snd] in Em.
    hb; [apply (o_child_redirect L l' [] t1)|]; try assumption.
    { rewrite Em. repeat constructor; cbn; intuition lia. }
    { intros j []. }
    { intros fd i Hin. assert (Hi' : In i (map snd l')) by (apply in_map_iff; exists (fd, i); auto).
      rewrite Em in Hi'. cbn in Hi'. lia. }
    { intros j []. }
    intros r2; cbv beta. apply hoare_pre. intros w (t2 & S2 & HD2).
    eapply hoare_conseq with (P := stf L t2); [intros ? ->; exact S2|intros a w' X; exact X|intros w' X; exact X|].
    destruct (Z.ltb_spec r2 0) as [Hr2|Hr2]; [apply Hfp|]. specialize (HD2 ltac:(lia)). clear w S2.
    cbn [app] in HD2. rewrite Em in HD2.
    hb; [apply f_handle_cloexec|]. intros r3; cbv beta.
    destruct (t2 !! po_exit o) as [dx|] eqn:Ex.
    2:{ apply hoare_pure. intros Hneg. destruct (Z.ltb_spec r3 0) as [Hr3|Hr3]; [apply Hfp|lia]. }
    apply hoare_pure. intros ->. cbn [Z.ltb Z.compare].
    set (t3 := <[po_exit o := fd_set_cloexec false dx]> t2).
    assert (HG3 : G t3).
    { apply HG. intros j Hj. destruct (HD2 j Hj) as (x & Exj & Rx & Cx).
      destruct (decide (j = po_exit o)) as [->|Hn].
      - exists (fd_set_cloexec false dx). split; [apply lookup_insert|]. rewrite Ex in Exj. injection Exj as <-. split; [exact Rx|reflexivity].
      - exists x. split; [unfold t3; rewrite lookup_insert_ne by congruence; exact Exj|auto]. }
    assert (Hwd : H (stf L t3)
              (match po_wd o with
               | Some d => let* q := sys_chdir d in if q <? 0 then let* e := get_errno in ret (- e) else ret q
               | None => ret 0 end) (fun _ w' => stf L t3 w')).
    { destruct (po_wd o); [|apply hoare_ret; auto].
      hb; [apply f_chdir|]. intros q; cbv beta. destruct (q <? 0); [|apply hoare_ret; auto].
      hb; [apply f_get_errno|]. intros e; cbv beta. apply hoare_ret. auto. }
    hb; [apply Hwd|]. intros r4; cbv beta.
    destruct (r4 <? 0); [apply Hfp|].
    hb; [apply f_set_environ|]. intros u; cbv beta.
    hb.
    { hb; [apply (f_execvp G L t3 _ av HG3)|]. intros q; cbv beta.
      apply hoare_pure. intros ->. cbn.
      apply hoare_pre. intros w (e & He & Se).
      eapply hoare_conseq with (P := stfe L t3 e); [intros ? ->; exact Se|intros a w' X; exact X|intros w' X; exact X|].
      hb; [apply f_get_errno_e|]. intros e0; cbv beta. apply hoare_pure. intros ->.
      apply hoare_ret. intros w' S'. instantiate (1 := fun r w' => r < 0 /\ stf L t3 w'). cbn. split; [lia|exact S']. }
    intros r5; cbv beta. apply hoare_pure. intros Hneg. destruct (Z.ltb_spec r5 0) as [Hr5|Hr5]; [apply Hfp|lia].
  Qed.

  (* ---- the child side of process_fork followed by the child side of process_start ---- *)
  Theorem child_exec_objects L t fprd fpwr sprd spwr av pg env o (k : MW unit) :
    0 <= L ->
    SrcOK t [(po_in o, 0); (po_out o, 1); (po_err o, 2)] ->
    (forall fd i, In (fd, i) [(po_in o, 0); (po_out o, 1); (po_err o, 2)] -> fd <> fprd /\ fd <> fpwr) ->
    (forall t', DoneOK t' [0; 1; 2] -> G t') ->
    H (stf L t)
      (fork_child_part fprd fpwr [po_in o; po_out o; po_err o; sprd; spwr; po_exit o]
                       (start_child_part sprd spwr (Some av) pg env o k))
      (fun _ _ => False).
  Proof.
    intros HL HS Hdist HG. unfold fork_child_part.
    assert (Hfp : forall t0 r, H (stf L t0) (sys_write fpwr [RLit (encode_int (- r))] ;> sys__exit 1) (fun _ _ => False))
      by (intros; apply f_fail_path).
    assert (Herr : forall t0, H (stf L t0) (let* r := (let* e := get_errno in ret (- e)) in sys_write fpwr [RLit (encode_int (- r))] ;> sys__exit 1) (fun _ _ => False)).
    { intros t0. eapply hoare_bind with (R := fun _ w' => stf L t0 w').
      - hb; [apply f_get_errno|]. intros e; cbv beta. apply hoare_ret. auto.
      - intros r; cbv beta. apply Hfp. }
    hb; [apply f_sigemptyset|]. intros r0; cbv beta. destruct (r0 <? 0); [apply Herr|].
    hb; [apply f_reset_signals|]. intros r1; cbv beta. destruct (r1 <? 0); [apply Hfp|].
    hb; [apply f_sigemptyset|]. intros r2; cbv beta. destruct (r2 <? 0); [apply Herr|].
    hb; [apply f_signal_mask|]. intros [r3 old]; cbv beta. destruct (r3 <? 0); [apply Hfp|].
    eapply hoare_bind with (R := fun r w' => r = (if (L <? 0) || (H_INT_MAX <? L) then H_INT_MAX else L - 1) /\ stf L t w').
    { unfold get_max_fd. hb; [apply f_getrlimit|]. intros [rr soft]; cbv beta.
      apply hoare_pure. intros E. injection E as -> ->. cbn [Z.ltb Z.compare].
      destruct ((L <? 0) || (H_INT_MAX <? L)); apply hoare_ret; auto. }
    intros r4; cbv beta. apply hoare_pure. intros ->.
    destruct (Z.ltb_spec L 0) as [Hl0|Hl0]; [lia|]. cbn [orb].
    destruct (Z.ltb_spec H_INT_MAX L) as [Hbig|Hsmall]. { cbn. apply Hfp. }
    destruct (Z.ltb_spec (L - 1) 0) as [Hneg|Hnn]. { apply Hfp. }
    destruct (Z.ltb_spec MAX_FD_LIMIT (L - 1)) as [Hm|Hm]; [apply Hfp|].
    set (skip := fprd :: fpwr :: [po_in o; po_out o; po_err o; sprd; spwr; po_exit o]).
    hb; [apply (f_close_loop L t skip (seqZ 0 (L - 1 + 1)))|].
    { apply Forall_forall. intros x Hx. apply elem_of_list_In, elem_of_seqZ in Hx. lia. }
    intros u; cbv beta.
    set (t1 := foldl (close_step skip) t (seqZ 0 (L - 1 + 1))).
    unfold pipe_destroy.
    hb; [apply f_handle_destroy|]. intros u1; cbv beta. apply hoare_pure. intros ->.
    hb; [apply f_handle_destroy|]. intros u2; cbv beta. apply hoare_pure. intros ->.
    set (t2 := if fprd =? -1 then (if fpwr =? -1 then t1 else delete fpwr t1) else delete fprd (if fpwr =? -1 then t1 else delete fpwr t1)).
    apply (o_start_child L t2 sprd spwr av pg env o k); [|exact HG].
    (* the child ends are in the keep list of the closing loop and are not the error pipe *)
    intros fd i Hin. destruct (HS fd i Hin) as (d & Efd & Rd). destruct (Hdist fd i Hin) as [N1 N2].
    exists d. split; [|exact Rd].
    assert (E1 : t1 !! fd = Some d).
    { unfold t1. rewrite close_loop_keeps; [exact Efd|].
      unfold skip, memZ. cbn [existsb]. destruct Hin as [E|[E|[E|[]]]]; injection E as <- _; rewrite Z.eqb_refl, ?orb_true_r; reflexivity. }
    unfold t2. destruct (fprd =? -1); destruct (fpwr =? -1); rewrite ?lookup_delete_ne by congruence; exact E1.
  Qed.
End ChildObj.

(* ================= C10, child side, for every parent table ================= *)
(* Whatever descriptor table the child inherits (any entries, any flags, any limit), whichever
   descriptors the three child ends are (also 0, 1 or 2 themselves, in any permutation, also the
   same descriptor for several streams): if the forked child reaches a successful exec, then for
   each stream i in 0..2 the image has descriptor i open and it refers to the very object the
   child end chosen for stream i referred to at fork.  (Fault-free child; the child ends are open
   descriptors other than the fork error pipe.) *)
Definition src_of (o : process_options) (i : Z) : Z :=
  if i =? 0 then po_in o else if i =? 1 then po_out o else po_err o.

Theorem child_image_objects L t fprd fpwr sprd spwr av pg env o (k : MW unit) w :
  0 <= L ->
  (forall i, 0 <= i <= 2 -> is_Some (t !! src_of o i) /\ src_of o i <> fprd /\ src_of o i <> fpwr) ->
  stf L t w ->
  match fork_child_part fprd fpwr [po_in o; po_out o; po_err o; sprd; spwr; po_exit o]
                        (start_child_part sprd spwr (Some av) pg env o k) w with
  | Ret _ _ => False
  | Stop w' => forall im, pr_image (curp w') = Some im ->
                 forall i, 0 <= i <= 2 ->
                   exists d0 d, t !! src_of o i = Some d0 /\ In (i, d) (im_fds im) /\ f_obj d = f_obj d0
  | Hang _ | Crash _ _ => True
  end.
Proof.
  intros HL Hsrc S.
  set (R := fun (i : Z) (ob : obj) => exists d0, t !! src_of o i = Some d0 /\ f_obj d0 = ob).
  pose proof (child_exec_objects (fun t' => DoneOK R t' [0; 1; 2]) R L t fprd fpwr sprd spwr av pg env o k HL) as Hc.
  assert (HS : SrcOK R t [(po_in o, 0); (po_out o, 1); (po_err o, 2)]).
  { intros fd i [E|[E|[E|[]]]]; injection E as <- <-.
    - destruct (Hsrc 0 ltac:(lia)) as ([d Hd] & _). exists d. split; [exact Hd|]. exists d. auto.
    - destruct (Hsrc 1 ltac:(lia)) as ([d Hd] & _). exists d. split; [exact Hd|]. exists d. auto.
    - destruct (Hsrc 2 ltac:(lia)) as ([d Hd] & _). exists d. split; [exact Hd|]. exists d. auto. }
  assert (Hd : forall fd i, In (fd, i) [(po_in o, 0); (po_out o, 1); (po_err o, 2)] -> fd <> fprd /\ fd <> fpwr).
  { intros fd i [E|[E|[E|[]]]]; injection E as <- <-.
    - apply (Hsrc 0); lia.
    - apply (Hsrc 1); lia.
    - apply (Hsrc 2); lia. }
  specialize (Hc HS Hd (fun t' X => X) w S).
  destruct (fork_child_part _ _ _ _ w) as [a w'|w'|w'|y w']; auto.
  intros im Him i Hi. destruct (Hc im Him) as (t' & Ef & HG).
  destruct (HG i ltac:(cbn; lia)) as (d & Ed & (d0 & E0 & Eo) & Cd).
  exists d0, d. split; [exact E0|]. split; [|congruence].
  rewrite Ef. apply elem_of_list_In, elem_of_map_to_list.
  unfold exec_fds. apply map_filter_lookup_Some. split; [exact Ed|]. cbn. rewrite Cd. reflexivity.
Qed.
