(* WorldSpec.v — specifications of the world's system calls that library proofs rest on.
   Level 1 (this file): the *flat frame*: children's activity (settle / advance / block) never
   touches the trace, the current-process marker, the fault and latency plans, the heap ledger,
   the FILE table or the file system; and the *emission* spec of each call: the events it
   appends, in every outcome (Ret, Hang, Stop, Crash). *)
From Verif Require Import Sys.
From Coq Require Import Lia.
Local Open Scope Z_scope.

(* the fields library code can observe that scripted children never change *)
Definition flat (w : world) :=
  (w_trace w, w_cur w, w_main w, w_faults w, w_lat w, w_calls w, w_heap w, w_next_blk w, w_files w, w_fs w).

Lemma flat_upd_proc pid f w : flat (upd_proc pid f w) = flat w.
Proof. unfold upd_proc. destruct (w_procs w !! pid); reflexivity. Qed.
Lemma flat_set_pipe q p w : flat (set_pipe q p w) = flat w.
Proof. reflexivity. Qed.
Lemma flat_kill_proc pid st w : flat (kill_proc pid st w) = flat w.
Proof. unfold kill_proc. apply flat_upd_proc. Qed.
Lemma flat_with_time t w : flat (w_with_time t w) = flat w.
Proof. reflexivity. Qed.

Lemma flat_with_next_pid n w : flat (w_with_next_pid n w) = flat w.
Proof. reflexivity. Qed.
Lemma flat_with_procs ps w : flat (w_with_procs ps w) = flat w.
Proof. reflexivity. Qed.

Ltac flat_simpl :=
  repeat first [ rewrite flat_upd_proc | rewrite flat_set_pipe | rewrite flat_kill_proc | rewrite flat_with_time
               | rewrite flat_with_next_pid | rewrite flat_with_procs ].

Lemma flat_step_child pid w w' : step_child pid w = Some w' -> flat w' = flat w.
Proof.
  unfold step_child. intros H.
  destruct (pr_state (get_proc pid w)); try discriminate.
  destruct (pr_kind (get_proc pid w)); try discriminate.
  destruct (w_time w <? pr_wake (get_proc pid w)); try discriminate.
  destruct (pr_script (get_proc pid w)) as [|a rest].
  { injection H as <-. now flat_simpl. }
  destruct a.
  - injection H as <-. now flat_simpl.
  - destruct (n <=? 0). { injection H as <-. now flat_simpl. }
    destruct (pr_fds (get_proc pid w) !! fd) as [[o cx nb]|].
    2:{ injection H as <-. now flat_simpl. }
    destruct o; try (injection H as <-; now flat_simpl).
    cbn [f_obj] in H.
    destruct (negb (has_reader p w)).
    { destruct (disp_of (get_proc pid w) SIGPIPE); injection H as <-; now flat_simpl. }
    destruct (pipe_free_cap (w_pipecap w) (get_pipe p w) <=? 0); try discriminate.
    injection H as <-.
    destruct (Z.min n (pipe_free_cap (w_pipecap w) (get_pipe p w)) <? n); now flat_simpl.
  - destruct (pr_fds (get_proc pid w) !! fd) as [[o cx nb]|].
    2:{ injection H as <-. now flat_simpl. }
    destruct o; try (injection H as <-; now flat_simpl).
    cbn [f_obj] in H.
    destruct (0 <? p_len (get_pipe p w)).
    { destruct (pipe_take n (get_pipe p w)). injection H as <-. now flat_simpl. }
    destruct (has_writer p w); try discriminate. injection H as <-. now flat_simpl.
  - destruct (pr_fds (get_proc pid w) !! fd) as [[o cx nb]|].
    2:{ injection H as <-. now flat_simpl. }
    destruct o; try (injection H as <-; now flat_simpl).
    cbn [f_obj] in H.
    destruct (0 <? p_len (get_pipe p w)).
    { destruct (pipe_take (p_len (get_pipe p w)) (get_pipe p w)). injection H as <-. now flat_simpl. }
    destruct (has_writer p w); try discriminate. injection H as <-. now flat_simpl.
  - injection H as <-. now flat_simpl.
  - injection H as <-. now flat_simpl.
  - injection H as <-. now flat_simpl.
  - injection H as <-. now flat_simpl.
  - injection H as <-. now flat_simpl.
  - injection H as <-. now flat_simpl.
Qed.

Lemma flat_settle_pass pids w : flat (snd (settle_pass pids w)) = flat w.
Proof.
  revert w. induction pids as [|pid rest IH]; intros w; cbn [settle_pass]; [reflexivity|].
  destruct (step_child pid w) as [w'|] eqn:E.
  - specialize (IH w'). destruct (settle_pass rest w') as [b w'']. cbn [snd] in *.
    rewrite IH. eapply flat_step_child; eassumption.
  - apply IH.
Qed.

Lemma flat_settle_fuel fuel w w' : settle_fuel fuel w = Some w' -> flat w' = flat w.
Proof.
  revert w. induction fuel as [|f IH]; intros w H; cbn [settle_fuel] in H; [discriminate|].
  pose proof (flat_settle_pass (script_pids w) w) as Hp.
  destruct (settle_pass (script_pids w) w) as [moved w1]. cbn [snd] in Hp.
  destruct moved.
  - rewrite (IH _ H). exact Hp.
  - injection H as <-. exact Hp.
Qed.

Lemma flat_settle w w' : settle w = Some w' -> flat w' = flat w.
Proof. apply flat_settle_fuel. Qed.

Lemma flat_advance_fuel fuel t w w' : advance_fuel fuel t w = Some w' -> flat w' = flat w.
Proof.
  revert w. induction fuel as [|f IH]; intros w H; cbn [advance_fuel] in H; [discriminate|].
  destruct (settle w) as [w1|] eqn:E1; [|discriminate].
  pose proof (flat_settle _ _ E1) as F1.
  destruct (next_instant w1) as [ni|].
  - destruct (ni <=? t).
    + rewrite (IH _ H). rewrite flat_with_time. exact F1.
    + destruct (w_time w1 <? t).
      * rewrite (flat_settle _ _ H). rewrite flat_with_time. exact F1.
      * injection H as <-. exact F1.
  - destruct (w_time w1 <? t).
    + rewrite (flat_settle _ _ H). rewrite flat_with_time. exact F1.
    + injection H as <-. exact F1.
Qed.

Lemma flat_advance_to t w w' : advance_to t w = Some w' -> flat w' = flat w.
Proof. apply flat_advance_fuel. Qed.

Definition blocked_world (b : blocked_res) : world :=
  match b with BReady w | BTimeout w | BHang w | BFuel w => w end.

Lemma flat_block_fuel fuel ready dl w : flat (blocked_world (block_fuel fuel ready dl w)) = flat w.
Proof.
  revert w. induction fuel as [|f IH]; intros w; cbn [block_fuel]; [reflexivity|].
  destruct (settle w) as [w1|] eqn:E1; [|reflexivity].
  pose proof (flat_settle _ _ E1) as F1.
  destruct (ready w1); [exact F1|].
  destruct (next_instant w1) as [ni|]; destruct dl as [d|]; cbn [blocked_world].
  - destruct (d <? ni).
    + cbn [blocked_world]. destruct (w_time w1 <? d); [rewrite flat_with_time|]; exact F1.
    + rewrite IH, flat_with_time. exact F1.
  - rewrite IH, flat_with_time. exact F1.
  - destruct (w_time w1 <? d); [rewrite flat_with_time|]; exact F1.
  - exact F1.
Qed.

Lemma flat_block_until ready tmo w : flat (blocked_world (block_until ready tmo w)) = flat w.
Proof. apply flat_block_fuel. Qed.

(* ---- outcomes and emission ---- *)
Definition oworld {A} (o : outcome world A) : world :=
  match o with Ret _ w | Hang w | Stop w | Crash _ w => w end.

(* the events a computation appends satisfy P (newest first, like the trace); the current
   process marker is unchanged *)
Definition appended (P : event -> Prop) (w w' : world) : Prop :=
  w_cur w' = w_cur w /\ exists l, w_trace w' = l ++ w_trace w /\ Forall P l.

Definition emits {A} (m : MW A) (P : event -> Prop) : Prop :=
  forall w, appended P w (oworld (m w)).

Lemma appended_refl P w : appended P w w.
Proof. split; [reflexivity|]. exists []. split; [reflexivity|constructor]. Qed.

Lemma appended_trans P w1 w2 w3 : appended P w1 w2 -> appended P w2 w3 -> appended P w1 w3.
Proof.
  intros [C1 (l1 & T1 & F1)] [C2 (l2 & T2 & F2)]. split; [congruence|].
  exists (l2 ++ l1). split.
  - rewrite T2, T1. rewrite <- app_assoc. reflexivity.
  - apply Forall_app. split; assumption.
Qed.

Lemma appended_weaken (P Q : event -> Prop) w w' : (forall e, P e -> Q e) -> appended P w w' -> appended Q w w'.
Proof.
  intros H [C (l & T & F)]. split; [exact C|]. exists l. split; [exact T|].
  eapply Forall_impl; eassumption.
Qed.

Lemma appended_flat P w w' : flat w' = flat w -> appended P w w'.
Proof.
  intros H. unfold flat in H. injection H as Ht Hc _ _ _ _ _ _ _ _.
  split; [exact Hc|]. exists []. split; [exact Ht|constructor].
Qed.

Lemma emits_ret {A} (a : A) P : emits (ret a) P.
Proof. intros w. apply appended_refl. Qed.

Lemma emits_bind {A B} (m : MW A) (f : A -> MW B) P :
  emits m P -> (forall a, emits (f a) P) -> emits (bind m f) P.
Proof.
  intros Hm Hf w. unfold bind. specialize (Hm w).
  destruct (m w) as [a w1|w1|w1|y w1]; cbn [oworld] in *; try exact Hm.
  eapply appended_trans; [exact Hm|apply Hf].
Qed.

Lemma emits_weaken {A} (m : MW A) (P Q : event -> Prop) : (forall e, P e -> Q e) -> emits m P -> emits m Q.
Proof. intros H Hm w. eapply appended_weaken; [exact H|apply Hm]. Qed.

Lemma emits_if {A} (b : bool) (m1 m2 : MW A) P : emits m1 P -> emits m2 P -> emits (if b then m1 else m2) P.
Proof. destruct b; auto. Qed.

Lemma emits_gets {A} (f : world -> A) P : emits (gets f) P.
Proof. intros w. apply appended_refl. Qed.
Lemma emits_get P : emits get P.
Proof. intros w. apply appended_refl. Qed.

Lemma emits_crash {A} y P : emits (fun w => Crash (A := A) y w) P.
Proof. intros w. apply appended_refl. Qed.

(* ---- prelude ---- *)
Lemma prelude_flatish w : let o := prelude w in
  w_trace (oworld o) = w_trace w /\ w_cur (oworld o) = w_cur w.
Proof.
  unfold prelude. cbn zeta.
  destruct (advance_to _ _) as [w2|] eqn:E; cbn [oworld].
  - pose proof (flat_advance_to _ _ _ E) as F. unfold flat in F. injection F as Ht Hc _ _ _ _ _ _ _ _.
    split; [exact Ht|exact Hc].
  - split; reflexivity.
Qed.

Lemma emits_prelude P : emits prelude P.
Proof.
  intros w. destruct (prelude_flatish w) as [Ht Hc]. split; [exact Hc|].
  exists []. split; [exact Ht|constructor].
Qed.

(* ---- log and the call shape ---- *)
Definition call_is (c : callid) (args : list Z) (e : event) : Prop :=
  e_call e = c /\ e_args e = args.

Lemma emits_log c args sargs r outs b : emits (log c args sargs r outs b) (call_is c args).
Proof.
  intros w. cbn. split; [reflexivity|].
  eexists [_]. split; [reflexivity|]. constructor; [|constructor]. split; reflexivity.
Qed.

Lemma emits_modify_cur f P : emits (modify (upd_cur f)) P.
Proof. intros w. cbn. apply appended_flat. apply flat_upd_proc. Qed.
Lemma emits_set_errno e P : emits (set_errno e) P.
Proof. apply emits_modify_cur. Qed.
Lemma emits_get_errno P : emits get_errno P.
Proof. apply emits_gets. Qed.
Lemma emits_set_cur_fds t P : emits (set_cur_fds t) P.
Proof. apply emits_modify_cur. Qed.

Lemma emits_fail c args sargs e : emits (fail c args sargs e) (call_is c args).
Proof.
  unfold fail. apply emits_bind; [apply emits_set_errno|]. intros _.
  apply emits_bind; [apply emits_log|]. intros _. apply emits_ret.
Qed.
Lemma emits_failb c args sargs e : emits (failb c args sargs e) (call_is c args).
Proof.
  unfold failb, last_lat. apply emits_bind; [apply emits_gets|]. intros l.
  apply emits_bind; [apply emits_set_errno|]. intros _.
  apply emits_bind; [apply emits_log|]. intros _. apply emits_ret.
Qed.
Lemma emits_done c args sargs r outs : emits (done c args sargs r outs) (call_is c args).
Proof.
  unfold done. apply emits_bind; [apply emits_log|]. intros _. apply emits_ret.
Qed.

Lemma emits_last_lat P : emits last_lat P.
Proof. unfold last_lat. apply emits_gets. Qed.

Ltac emits_step :=
  lazymatch goal with
  | |- emits last_lat _ => apply emits_last_lat
  | |- emits (bind _ _) _ => apply emits_bind; [|intros ?]
  | |- emits (ret _) _ => apply emits_ret
  | |- emits prelude _ => apply emits_prelude
  | |- emits (fail _ _ _ _) _ => apply emits_fail
  | |- emits (failb _ _ _ _) _ => apply emits_failb
  | |- emits (done _ _ _ _ _) _ => apply emits_done
  | |- emits (log _ _ _ _ _ _) _ => apply emits_log
  | |- emits (gets _) _ => apply emits_gets
  | |- emits get _ => apply emits_get
  | |- emits get_errno _ => apply emits_get_errno
  | |- emits (set_errno _) _ => apply emits_set_errno
  | |- emits (set_cur_fds _) _ => apply emits_set_cur_fds
  | |- emits (modify (upd_cur _)) _ => apply emits_modify_cur
  | |- emits (match ?x with _ => _ end) _ => destruct x
  end.

(* ---- the calls used by wait / terminate / kill / stop / destroy / read / write / close ---- *)
Lemma emits_sys_close fd : emits (sys_close fd) (call_is CClose [fd]).
Proof. unfold sys_close. repeat emits_step. Qed.

Lemma emits_sys_kill pid sig : emits (sys_kill pid sig) (call_is CKill [pid; sig]).
Proof.
  unfold sys_kill. repeat emits_step.
  intros w. cbn. apply appended_flat. unfold deliver.
  destruct (pr_state (get_proc pid w)); try reflexivity.
  destruct (sig =? SIGKILL); [now flat_simpl|].
  destruct (disp_of (get_proc pid w) sig); now flat_simpl.
Qed.

Lemma emits_sys_clock : emits sys_clock (call_is CClock []).
Proof. unfold sys_clock. repeat emits_step. Qed.

Lemma emits_modify f P : (forall w, w_trace (f w) = w_trace w /\ w_cur (f w) = w_cur w) -> emits (modify f) P.
Proof. intros H w. cbn. destruct (H w) as [Ht Hc]. split; [exact Hc|]. exists []. split; [exact Ht|constructor]. Qed.

Lemma emits_heap_alloc c args size : emits (heap_alloc c args size) (call_is c args).
Proof.
  unfold heap_alloc. repeat emits_step.
  apply emits_modify. intros w. destruct (in_main w); split; reflexivity.
Qed.
Lemma emits_sys_malloc n : emits (sys_malloc n) (call_is CMalloc [n]).
Proof. apply emits_heap_alloc. Qed.
Lemma emits_sys_calloc k n : emits (sys_calloc k n) (call_is CCalloc [k; n]).
Proof. apply emits_heap_alloc. Qed.

Lemma emits_sys_free id : emits (sys_free id) (call_is CFree [id]).
Proof.
  unfold sys_free. apply emits_bind; [apply emits_prelude|intros _].
  destruct (Z.eqb_spec id 0) as [->|Hne]; [apply emits_log|].
  repeat emits_step.
  apply emits_modify. intros w. split; reflexivity.
Qed.

Lemma emits_after_block {A} (k : blocked_res -> outcome world A) ready tmo P :
  (forall b, appended P (blocked_world b) (oworld (k b))) ->
  emits (fun w => k (block_until ready tmo w)) P.
Proof.
  intros H w. eapply appended_trans; [|apply H].
  apply appended_flat. apply flat_block_until.
Qed.

Lemma emits_sys_poll fds tmo : emits (sys_poll fds tmo) (call_is CPoll (tmo :: flat_fds fds)).
Proof.
  unfold sys_poll. repeat emits_step.
  intros w. eapply appended_trans; [apply appended_flat, (flat_block_until (poll_ready fds) tmo)|].
  destruct (block_until (poll_ready fds) tmo w) as [w1|w1|w1|w1]; cbn [blocked_world oworld]; try apply appended_refl.
  - apply (emits_bind _ _ _ (emits_log _ _ _ _ _ _)). intros _. apply emits_ret.
  - apply (emits_bind _ _ _ (emits_log _ _ _ _ _ _)). intros _. apply emits_ret.
Qed.

Ltac after_block w :=
  match goal with
  | |- context[block_until ?r ?t w] =>
      eapply appended_trans; [apply appended_flat, (flat_block_until r t w)|];
      destruct (block_until r t w) as [w1|w1|w1|w1]; cbn [blocked_world oworld]; try apply appended_refl
  end.

Lemma emits_sys_waitpid pid : emits (sys_waitpid pid) (call_is CWaitpid [pid]).
Proof.
  unfold sys_waitpid. repeat emits_step.
  intros w.
  destruct (0 <? pid).
  - destruct (w_procs w !! pid) as [p|].
    + destruct (is_child_of (w_cur w) p).
      * after_block w.
        destruct (pr_state (get_proc pid w1)); cbn [oworld]; try apply appended_refl.
        eapply appended_trans; [apply appended_flat; apply flat_upd_proc|].
        apply (emits_bind _ _ _ (emits_log _ _ _ _ _ _)). intros _. apply emits_ret.
      * apply (emits_bind _ _ _ (emits_fail _ _ _ _)). intros _. apply emits_ret.
    + apply (emits_bind _ _ _ (emits_fail _ _ _ _)). intros _. apply emits_ret.
  - destruct (negb (has_children (w_cur w) w)).
    + apply (emits_bind _ _ _ (emits_fail _ _ _ _)). intros _. apply emits_ret.
    + after_block w.
      destruct (zombie_children (w_cur w) w1) as [|[c st] rest]; cbn [oworld]; [apply appended_refl|].
      eapply appended_trans; [apply appended_flat; apply flat_upd_proc|].
      apply (emits_bind _ _ _ (emits_log _ _ _ _ _ _)). intros _. apply emits_ret.
Qed.
