(* Properties_C16.v — C16: drain and run.  Theorems only. *)
From Verif Require Import Lib WorldSpec WorldSpec2 LibSpec LibSpec2 ProofsDrain StartSpec RunSpec.
From Coq Require Import Lia.
Local Open Scope Z_scope.

(* the string sink: the block becomes old string ++ chunk ++ NUL (exact size: no store outside),
   also when the string was non-empty before; NULL counts as the empty string *)
Theorem C16_sink_string_appends : forall s chunk, no_nul s ->
  sink_string (Some (s ++ [0])) chunk true = (0, Some (s ++ chunk ++ [0])).
Proof. exact sink_string_ok. Qed.
Print Assumptions C16_sink_string_appends.
Theorem C16_sink_string_from_null : forall chunk, sink_string None chunk true = (0, Some (chunk ++ [0])).
Proof. exact sink_string_null. Qed.
Print Assumptions C16_sink_string_from_null.
Theorem C16_sink_string_exact_size : forall s chunk b, no_nul s ->
  sink_string (Some (s ++ [0])) chunk true = (0, Some b) -> length b = (length s + length chunk + 1)%nat.
Proof. exact sink_string_size. Qed.
Print Assumptions C16_sink_string_exact_size.
(* allocation failure at any growth step: ENOMEM and the accumulated string is left untouched *)
Theorem C16_sink_string_enomem : forall cur chunk, sink_string cur chunk false = (REPROC_ENOMEM, cur).
Proof. exact sink_string_enomem. Qed.
Print Assumptions C16_sink_string_enomem.
(* accumulating any sequence of NUL-free chunks gives exactly their concatenation, NUL-terminated *)
Theorem C16_sink_string_accumulates : forall s chunks, no_nul s -> Forall no_nul chunks ->
  sink_all (Some (s ++ [0])) chunks = Some (s ++ concat chunks ++ [0]).
Proof. exact sink_all_spec. Qed.
Print Assumptions C16_sink_string_accumulates.

(* drain first calls both sinks once with an empty buffer tagged as the input stream, out first;
   a non-zero result stops it at once with that value *)
Theorem C16_initial_calls : forall fuel p s,
  reproc_drain fuel p s =
  (let '(v, s) := sink_call 0 REPROC_STREAM_IN 0 [] s in
   if negb (v =? 0) then ret (v, p, s) else
   let '(v, s) := sink_call 1 REPROC_STREAM_IN 0 [] s in
   if negb (v =? 0) then ret (v, p, s) else drain_loop fuel p s).
Proof. reflexivity. Qed.
Print Assumptions C16_initial_calls.

(* one round of the loop: poll both output streams for ever (the deadline bounds it); closed pipe ->
   0; deadline event -> the timeout error; read the stream that has an event (stdout first);
   a read error other than the closed-stream error is returned; the chunk (size 0 on the
   closed-stream error) goes to the sink of the stream it came from, tagged with that stream;
   a non-zero sink result is returned at once *)
Theorem C16_loop_round : forall f p s,
  drain_loop (S f) p s =
  (let* '(r, evs) := reproc_poll [(Some p, Z.lor REPROC_EVENT_OUT REPROC_EVENT_ERR)] REPROC_INFINITE in
   if r <? 0 then ret ((if r =? REPROC_EPIPE then 0 else r), p, s) else
   let events := match evs with Some (e :: _) => e | _ => 0 end in
   if has_bit events REPROC_EVENT_DEADLINE then ret (REPROC_ETIMEDOUT, p, s) else
   let stream := if has_bit events REPROC_EVENT_OUT then REPROC_STREAM_OUT else REPROC_STREAM_ERR in
   let* '(r, rs, p) := reproc_read p stream true 4096 in
   if (r <? 0) && negb (r =? REPROC_EPIPE) then ret (r, p, s) else
   let bytes := if r =? REPROC_EPIPE then 0 else r in
   let '(v, s) := sink_call (if stream =? REPROC_STREAM_OUT then 0 else 1) stream bytes rs s in
   if negb (v =? 0) then ret (v, p, s) else drain_loop f p s).
Proof. reflexivity. Qed.
Print Assumptions C16_loop_round.

(* run = new, start, drain, stop, destroy with first-error propagation; destroy always runs *)
Theorem C16_run_ex : forall fuel argv o src s,
  reproc_run_ex fuel argv o src s =
  (if o_fork o then ret (REPROC_EINVAL, s) else
   let* np := reproc_new in
   match np with
   | None => ret (REPROC_ENOMEM, s)
   | Some p =>
       let* '(r, p) := reproc_start p argv o src (fun _ => fun w => Crash crash_unmodelled w) in
       if r <? 0 then reproc_destroy p ;> ret (r, s) else
       let* '(r, p, s) := reproc_drain fuel p s in
       if r <? 0 then reproc_destroy p ;> ret (r, s) else
       let* '(r, p) := reproc_stop p (o_stop o) in
       reproc_destroy p ;> ret (r, s)
   end).
Proof. reflexivity. Qed.
Print Assumptions C16_run_ex.

Example C16_ex : sink_string (Some [80; 82; 69; 58; 0]) [97; 98] true = (0, Some [80; 82; 69; 58; 97; 98; 0]).
Proof. vm_compute. reflexivity. Qed.

(* RUN COMPOSITION LEAKS NOTHING, EVERY FAULT PLAN: reproc_run_ex (new, start, drain with any sink
   behaviour, stop, destroy in one call) leaves the caller's descriptor table and heap exactly as it
   found them, whatever it returns -- every start failure, every drain error, every sink error,
   every stop outcome, every child behaviour, any failing call at any point *)
Theorem C16_run_leaves_no_descriptor : forall fuel argv o src s w x w',
  WorldSpec2.wf w -> 0 <= w_cur w -> 0 < w_next_blk w ->
  reproc_run_ex fuel argv o src s w = Ret x w' -> pr_fds (curp w') = pr_fds (curp w).
Proof. exact run_ex_restores_descriptor_table. Qed.
Print Assumptions C16_run_leaves_no_descriptor.
Theorem C16_run_leaves_no_block : forall fuel argv o src s w x w',
  WorldSpec2.wf w -> 0 <= w_cur w -> w_cur w = w_main w -> 0 < w_next_blk w ->
  (forall id, w_next_blk w <= id -> heap_live id w = false) ->
  reproc_run_ex fuel argv o src s w = Ret x w' -> forall id, heap_live id w' = heap_live id w.
Proof. exact run_ex_releases_memory. Qed.
Print Assumptions C16_run_leaves_no_block.
