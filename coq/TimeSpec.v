(* TimeSpec.v — C08 / C07 / C16: the operating-system level wait of poll never exceeds its
   time-out, whatever the children do and however many of them there are: virtual time is only
   ever advanced by the blocking loop itself, and never past the deadline. *)
From Verif Require Import Sys WorldSpec Lib LibSpec.
From Coq Require Import Lia.
Local Open Scope Z_scope.

Definition tmv (w : world) : Z := w_time w.
Lemma tmv_upd_proc pid f w : tmv (upd_proc pid f w) = tmv w.
Proof. unfold upd_proc. destruct (w_procs w !! pid); reflexivity. Qed.
Lemma tmv_set_pipe q p w : tmv (set_pipe q p w) = tmv w.
Proof. reflexivity. Qed.
Lemma tmv_kill_proc pid st w : tmv (kill_proc pid st w) = tmv w.
Proof. unfold kill_proc. apply tmv_upd_proc. Qed.
Lemma tmv_with_next_pid n w : tmv (w_with_next_pid n w) = tmv w.
Proof. reflexivity. Qed.
Lemma tmv_with_procs ps w : tmv (w_with_procs ps w) = tmv w.
Proof. reflexivity. Qed.
Ltac tmv_simpl :=
  repeat first [ rewrite tmv_upd_proc | rewrite tmv_set_pipe | rewrite tmv_kill_proc
               | rewrite tmv_with_next_pid | rewrite tmv_with_procs ].

(* a child's step takes no time *)
Lemma tmv_step_child pid w w' : step_child pid w = Some w' -> tmv w' = tmv w.
Proof.
  unfold step_child. intros H.
  destruct (pr_state (get_proc pid w)); try discriminate.
  destruct (pr_kind (get_proc pid w)); try discriminate.
  destruct (w_time w <? pr_wake (get_proc pid w)); try discriminate.
  destruct (pr_script (get_proc pid w)) as [|a rest].
  { injection H as <-. now tmv_simpl. }
  destruct a.
  - injection H as <-. now tmv_simpl.
  - destruct (n <=? 0). { injection H as <-. now tmv_simpl. }
    destruct (pr_fds (get_proc pid w) !! fd) as [[o cx nb]|].
    2:{ injection H as <-. now tmv_simpl. }
    destruct o; try (injection H as <-; now tmv_simpl).
    cbn [f_obj] in H.
    destruct (negb (has_reader p w)).
    { destruct (disp_of (get_proc pid w) SIGPIPE); injection H as <-; now tmv_simpl. }
    destruct (pipe_free_cap (w_pipecap w) (get_pipe p w) <=? 0); try discriminate.
    injection H as <-.
    destruct (Z.min n (pipe_free_cap (w_pipecap w) (get_pipe p w)) <? n); now tmv_simpl.
  - destruct (pr_fds (get_proc pid w) !! fd) as [[o cx nb]|].
    2:{ injection H as <-. now tmv_simpl. }
    destruct o; try (injection H as <-; now tmv_simpl).
    cbn [f_obj] in H.
    destruct (0 <? p_len (get_pipe p w)).
    { destruct (pipe_take n (get_pipe p w)). injection H as <-. now tmv_simpl. }
    destruct (has_writer p w); try discriminate. injection H as <-. now tmv_simpl.
  - destruct (pr_fds (get_proc pid w) !! fd) as [[o cx nb]|].
    2:{ injection H as <-. now tmv_simpl. }
    destruct o; try (injection H as <-; now tmv_simpl).
    cbn [f_obj] in H.
    destruct (0 <? p_len (get_pipe p w)).
    { destruct (pipe_take (p_len (get_pipe p w)) (get_pipe p w)). injection H as <-. now tmv_simpl. }
    destruct (has_writer p w); try discriminate. injection H as <-. now tmv_simpl.
  - injection H as <-. now tmv_simpl.
  - injection H as <-. now tmv_simpl.
  - injection H as <-. now tmv_simpl.
  - injection H as <-. now tmv_simpl.
  - injection H as <-. now tmv_simpl.
  - injection H as <-. now tmv_simpl.
Qed.

Lemma tmv_settle_pass pids w : tmv (snd (settle_pass pids w)) = tmv w.
Proof.
  revert w. induction pids as [|pid rest IH]; intros w; cbn [settle_pass]; [reflexivity|].
  destruct (step_child pid w) as [w'|] eqn:E.
  - specialize (IH w'). destruct (settle_pass rest w') as [b w'']. cbn [snd] in *.
    rewrite IH. eapply tmv_step_child; eassumption.
  - apply IH.
Qed.

Lemma tmv_settle_fuel fuel w w' : settle_fuel fuel w = Some w' -> tmv w' = tmv w.
Proof.
  revert w. induction fuel as [|f IH]; intros w H; cbn [settle_fuel] in H; [discriminate|].
  pose proof (tmv_settle_pass (script_pids w) w) as Hp.
  destruct (settle_pass (script_pids w) w) as [moved w1]. cbn [snd] in Hp.
  destruct moved.
  - rewrite (IH _ H). exact Hp.
  - injection H as <-. exact Hp.
Qed.


Lemma tmv_settle w w' : settle w = Some w' -> tmv w' = tmv w.
Proof. apply tmv_settle_fuel. Qed.

(* ---- the blocking loop never passes its deadline ---- *)
Lemma block_fuel_bound fuel ready d : forall w, w_time w <= d ->
  w_time (blocked_world (block_fuel fuel ready (Some d) w)) <= d.
Proof.
  induction fuel as [|f IH]; intros w Hw; cbn [block_fuel blocked_world]; [exact Hw|].
  destruct (settle w) as [w1|] eqn:E1; cbn [blocked_world]; [|exact Hw].
  pose proof (tmv_settle _ _ E1) as T1. unfold tmv in T1.
  destruct (ready w1); cbn [blocked_world]; [lia|].
  destruct (next_instant w1) as [ni|].
  - destruct (Z.ltb_spec d ni).
    + cbn [blocked_world]. destruct (Z.ltb_spec (w_time w1) d); cbn; lia.
    + apply IH. cbn. lia.
  - cbn [blocked_world]. destruct (Z.ltb_spec (w_time w1) d); cbn; lia.
Qed.
(* ... and time never runs backwards in it *)
Lemma next_instant_later w ni : next_instant w = Some ni -> w_time w < ni.
Proof.
  unfold next_instant. generalize (map_to_list (w_procs w)). intros l. revert ni.
  induction l as [|kv l IH]; intros ni H; cbn [fold_right] in H; [discriminate|].
  destruct (pr_state (snd kv)); try (apply IH; exact H).
  destruct (pr_kind (snd kv)); try (apply IH; exact H).
  destruct (Z.ltb_spec (w_time w) (pr_wake (snd kv))); [|apply IH; exact H].
  destruct (fold_right _ None l) as [t|] eqn:Ef.
  - injection H as <-. specialize (IH t eq_refl). lia.
  - injection H as <-. lia.
Qed.
Lemma block_fuel_mono fuel ready dl : forall w, w_time w <= w_time (blocked_world (block_fuel fuel ready dl w)).
Proof.
  induction fuel as [|f IH]; intros w; cbn [block_fuel blocked_world]; [lia|].
  destruct (settle w) as [w1|] eqn:E1; cbn [blocked_world]; [|lia].
  pose proof (tmv_settle _ _ E1) as T1. unfold tmv in T1.
  destruct (ready w1); cbn [blocked_world]; [lia|].
  destruct (next_instant w1) as [ni|] eqn:En.
  - pose proof (next_instant_later _ _ En) as Hn.
    destruct dl as [d|].
    + destruct (Z.ltb_spec d ni).
      * cbn [blocked_world]. destruct (Z.ltb_spec (w_time w1) d); cbn; lia.
      * specialize (IH (w_with_time ni w1)). cbn in IH. lia.
    + specialize (IH (w_with_time ni w1)). cbn in IH. lia.
  - destruct dl as [d|]; cbn [blocked_world]; [destruct (Z.ltb_spec (w_time w1) d); cbn; lia|lia].
Qed.

Theorem block_until_bound ready tmo w : 0 <= tmo ->
  w_time w <= w_time (blocked_world (block_until ready tmo w)) <= w_time w + tmo.
Proof.
  intros Ht. unfold block_until. destruct (Z.ltb_spec tmo 0); [lia|]. split.
  - apply block_fuel_mono.
  - apply block_fuel_bound. lia.
Qed.

(* ---- poll: the logged blocking time of a poll with a time-out never exceeds the time-out ---- *)
Lemma emits_log_P c a s r o b (P : event -> Prop) :
  (forall w, P {| e_pid := w_cur w; e_call := c; e_args := a; e_sargs := s; e_ret := r; e_outs := o;
                  e_errno := pr_errno (curp w); e_time := w_time w; e_blocked := b |}) ->
  emits (log c a s r o b) P.
Proof.
  intros H w. cbn. split; [reflexivity|]. eexists [_]. split; [reflexivity|]. constructor; [apply H|constructor].
Qed.

Definition bounded (tmo : Z) (e : event) : Prop := e_call e = CPoll -> 0 <= e_blocked e <= tmo.

Theorem sys_poll_bounded fds tmo : 0 <= tmo -> emits (sys_poll fds tmo) (bounded tmo).
Proof.
  intros Ht. unfold sys_poll. cbv zeta. apply emits_bind; [apply emits_prelude|]. intros [e|].
  - eapply emits_of_emitsR. eapply emitsR_bind with (R := fun l => 0 <= l).
    { intros w. split; [apply appended_refl|]. intros l w' El. injection El as <- _. lia. }
    intros l Hl. apply emitsR_of_emits.
    apply emits_bind; [apply emits_set_errno|]. intros _.
    apply emits_bind; [|intros _; apply emits_ret].
    destruct (Z.ltb_spec tmo 0); [lia|].
    apply emits_log_P. intros w0 _. cbn [e_blocked]. lia.
  - intros w.
    pose proof (block_until_bound (poll_ready fds) tmo w Ht) as Hb.
    eapply appended_trans; [apply appended_flat, (flat_block_until (poll_ready fds) tmo)|].
    destruct (block_until (poll_ready fds) tmo w) as [w1|w1|w1|w1]; cbn [blocked_world oworld] in *; try apply appended_refl.
    + assert (Hbb : 0 <= w_time w1 - w_time w <= tmo) by lia.
      apply emits_bind; [|intros _; apply emits_ret]. apply emits_log_P. intros w0 _. cbn [e_blocked]. exact Hbb.
    + assert (Hbb : 0 <= w_time w1 - w_time w <= tmo) by lia.
      apply emits_bind; [|intros _; apply emits_ret]. apply emits_log_P. intros w0 _. cbn [e_blocked]. exact Hbb.
Qed.

(* the statement that does not depend on who calls poll: EVERY poll event whose time-out argument
   is non-negative records a blocking time between 0 and that argument *)
Definition pollok (e : event) : Prop :=
  e_call e = CPoll -> match e_args e with t :: _ => 0 <= t -> 0 <= e_blocked e <= t | [] => True end.

Lemma pollok_other c args e : c <> CPoll -> call_is c args e -> pollok e.
Proof. intros Hc [E _] Hp. congruence. Qed.

Theorem sys_poll_ok fds tmo : emits (sys_poll fds tmo) pollok.
Proof.
  destruct (Z.ltb_spec tmo 0) as [Hneg|Hnn].
  - eapply emits_weaken; [|apply emits_sys_poll]. intros e [Hc Ha] _. rewrite Ha. lia.
  - assert (H2 : emits (sys_poll fds tmo) (fun e => call_is CPoll (tmo :: flat_fds fds) e /\ bounded tmo e)).
    { intros w. destruct (emits_sys_poll fds tmo w) as (C1 & l1 & T1 & F1). destruct (sys_poll_bounded fds tmo Hnn w) as (_ & l2 & T2 & F2).
      split; [exact C1|]. exists l1. split; [exact T1|]. rewrite T1 in T2. apply app_inv_tail in T2. subst l2.
      apply Forall_forall. intros e He. split; [eapply Forall_forall in F1; eassumption|eapply Forall_forall in F2; eassumption]. }
    eapply emits_weaken; [|exact H2]. intros e [[Hc Ha] Hb] _. rewrite Ha. intros _. apply Hb, Hc.
Qed.

Ltac ok_other := (intros ? ?H; eapply pollok_other; [|exact H]; discriminate).

Lemma ok_pipe_poll srcs tmo : emits (pipe_poll srcs tmo) pollok.
Proof.
  unfold pipe_poll.
  assert (HC : forall k n, emits (sys_calloc k n) pollok) by (intros; eapply emits_weaken; [|apply emits_sys_calloc]; ok_other).
  assert (HF : forall id, emits (sys_free id) pollok) by (intros; eapply emits_weaken; [|apply emits_sys_free]; ok_other).
  apply emits_bind; [apply HC|]. intros blk. destruct (blk =? 0).
  - apply emits_bind; [apply emits_get_errno|]. intros e. apply emits_bind; [apply HF|]. intros _. apply emits_ret.
  - apply emits_bind; [apply sys_poll_ok|]. intros [r rev]. destruct (r <? 0).
    + apply emits_bind; [apply emits_get_errno|]. intros e. apply emits_bind; [apply HF|]. intros _. apply emits_ret.
    + apply emits_bind; [apply HF|]. intros _. apply emits_ret.
Qed.

Lemma ok_handle_destroy h : emits (handle_destroy h) pollok.
Proof. eapply emits_weaken; [|apply emits_handle_destroy]. intros e (Hc & _) Hp. congruence. Qed.

Theorem ok_reproc_wait p t : emits (reproc_wait p t) pollok.
Proof.
  unfold reproc_wait.
  destruct (h_status p =? STATUS_IN_CHILD); [apply emits_ret|].
  destruct (h_status p =? STATUS_NOT_STARTED); [apply emits_ret|].
  destruct (0 <=? h_status p); [apply emits_ret|].
  apply emits_bind.
  { destruct (t =? REPROC_DEADLINE); [|apply emits_ret]. apply emits_bind; [apply emits_expiry; intros e He Hp; congruence|]. intros t0. apply emits_ret. }
  intros tmo. apply emits_bind; [apply ok_pipe_poll|]. intros [r rev].
  destruct (r <=? 0); [apply emits_ret|].
  apply emits_bind.
  { unfold process_wait. apply emits_bind; [eapply emits_weaken; [|apply emits_sys_waitpid]; ok_other|]. intros [rw st].
    destruct (rw <? 0); [apply emits_bind; [apply emits_get_errno|intros e; apply emits_ret]|apply emits_ret]. }
  intros r3. destruct (r3 <? 0); [apply emits_ret|].
  apply emits_bind; [apply ok_handle_destroy|]. intros x. apply emits_ret.
Qed.

Lemma ok_kill pid sig : emits (let* q := sys_kill pid sig in if q <? 0 then let* e := get_errno in ret (- e) else ret 0) pollok.
Proof.
  apply emits_bind; [eapply emits_weaken; [|apply emits_sys_kill]; ok_other|]. intros q.
  destruct (q <? 0); [apply emits_bind; [apply emits_get_errno|intros e; apply emits_ret]|apply emits_ret].
Qed.

Theorem ok_stop_loop acts : forall p r, emits (stop_loop acts p r) pollok.
Proof.
  induction acts as [|a rest IH]; intros p r; cbn [stop_loop]; [apply emits_ret|].
  assert (Hstep : forall act : MW Z, emits act pollok ->
            emits (let* r1 := act in if r1 <? 0 then ret (r1, p) else
                   let* '(r2, p2) := reproc_wait p (sa_timeout a) in
                   if negb (r2 =? REPROC_ETIMEDOUT) then ret (r2, p2) else stop_loop rest p2 r2) pollok).
  { intros act Ha. apply emits_bind; [exact Ha|]. intros r1. destruct (r1 <? 0); [apply emits_ret|].
    apply emits_bind; [apply ok_reproc_wait|]. intros [r2 p2]. destruct (negb (r2 =? REPROC_ETIMEDOUT)); [apply emits_ret|apply IH]. }
  assert (Hk : forall sig, emits (if h_status p =? STATUS_IN_CHILD then ret REPROC_EINVAL else
                                  if h_status p =? STATUS_NOT_STARTED then ret REPROC_EINVAL else
                                  if 0 <=? h_status p then ret 0 else
                                  (let* q := sys_kill (h_handle p) sig in if q <? 0 then let* e := get_errno in ret (- e) else ret 0)) pollok).
  { intros sig. destruct (h_status p =? STATUS_IN_CHILD); [apply emits_ret|]. destruct (h_status p =? STATUS_NOT_STARTED); [apply emits_ret|].
    destruct (0 <=? h_status p); [apply emits_ret|apply ok_kill]. }
  destruct (stop_action_kind (sa_action a)).
  - apply IH.
  - apply Hstep, emits_ret.
  - apply Hstep. apply (Hk SIGTERM).
  - apply Hstep. apply (Hk SIGKILL).
  - apply Hstep, emits_ret.
Qed.

Theorem ok_reproc_stop p acts : emits (reproc_stop p acts) pollok.
Proof.
  unfold reproc_stop. destruct (h_status p =? STATUS_IN_CHILD); [apply emits_ret|].
  destruct (h_status p =? STATUS_NOT_STARTED); [apply emits_ret|]. apply ok_stop_loop.
Qed.

Theorem ok_reproc_destroy p : emits (reproc_destroy p) pollok.
Proof.
  unfold reproc_destroy. apply emits_bind.
  { destruct (h_status p =? STATUS_IN_PROGRESS); [|apply emits_ret].
    apply emits_bind; [apply ok_reproc_stop|]. intros [x p']. apply emits_ret. }
  intros p1. unfold pipe_destroy.
  repeat (apply emits_bind; [apply ok_handle_destroy|]; intros ?).
  eapply emits_weaken; [|apply emits_sys_free]. ok_other.
Qed.

(* a wait with an explicit time-out t >= 0 hands exactly t to poll: no OS-level wait of it exceeds t *)
Lemma bounded_other t c args e : c <> CPoll -> call_is c args e -> bounded t e.
Proof. intros Hc [E _] Hp. congruence. Qed.
Ltac bd_other := (intros ? ?H; eapply bounded_other; [|exact H]; discriminate).
Lemma pipe_poll_bounded srcs tmo : 0 <= tmo -> emits (pipe_poll srcs tmo) (bounded tmo).
Proof.
  intros Ht. unfold pipe_poll.
  assert (HC : forall k n, emits (sys_calloc k n) (bounded tmo)) by (intros; eapply emits_weaken; [|apply emits_sys_calloc]; bd_other).
  assert (HF : forall id, emits (sys_free id) (bounded tmo)) by (intros; eapply emits_weaken; [|apply emits_sys_free]; bd_other).
  apply emits_bind; [apply HC|]. intros blk. destruct (blk =? 0).
  - apply emits_bind; [apply emits_get_errno|]. intros e. apply emits_bind; [apply HF|]. intros _. apply emits_ret.
  - apply emits_bind; [apply sys_poll_bounded, Ht|]. intros [r rev]. destruct (r <? 0).
    + apply emits_bind; [apply emits_get_errno|]. intros e. apply emits_bind; [apply HF|]. intros _. apply emits_ret.
    + apply emits_bind; [apply HF|]. intros _. apply emits_ret.
Qed.
Theorem reproc_wait_bounded p t : 0 <= t -> emits (reproc_wait p t) (bounded t).
Proof.
  intros Ht. unfold reproc_wait.
  destruct (h_status p =? STATUS_IN_CHILD); [apply emits_ret|].
  destruct (h_status p =? STATUS_NOT_STARTED); [apply emits_ret|].
  destruct (0 <=? h_status p); [apply emits_ret|].
  destruct (Z.eqb_spec t REPROC_DEADLINE) as [->|_]; [unfold REPROC_DEADLINE in Ht; lia|].
  eapply emits_of_emitsR. eapply emitsR_bind with (R := fun x => x = t); [apply emitsR_ret; reflexivity|].
  intros tmo ->. apply emitsR_of_emits.
  apply emits_bind; [apply pipe_poll_bounded, Ht|]. intros [r rev].
  destruct (r <=? 0); [apply emits_ret|].
  apply emits_bind.
  { unfold process_wait. apply emits_bind; [eapply emits_weaken; [|apply emits_sys_waitpid]; bd_other|]. intros [rw st].
    destruct (rw <? 0); [apply emits_bind; [apply emits_get_errno|intros e; apply emits_ret]|apply emits_ret]. }
  intros r3. destruct (r3 <? 0); [apply emits_ret|].
  apply emits_bind; [|intros x; apply emits_ret].
  eapply emits_weaken; [|apply emits_handle_destroy]. intros e (Hc & _) Hp. congruence.
Qed.

(* reproc_poll: the same for the API's poll, for every list of sources *)
Lemma ok_fed_loop srcs : forall i e mn, emits (fed_loop srcs i e mn) pollok.
Proof.
  induction srcs as [|[[p|] x] r IH]; intros i e mn; cbn [fed_loop]; [apply emits_ret| |apply IH].
  apply emits_bind; [apply emits_expiry; intros ev He Hp; congruence|]. intros cur.
  destruct (cur =? REPROC_DEADLINE); [apply emits_ret|]. destruct (cur =? REPROC_INFINITE); [apply IH|].
  destruct ((mn =? REPROC_INFINITE) || (cur <? mn)); apply IH.
Qed.
Theorem ok_reproc_poll srcs t : emits (reproc_poll srcs t) pollok.
Proof.
  unfold reproc_poll. destruct srcs as [|s0 sr]; [apply emits_ret|]. set (srcs := s0 :: sr).
  assert (HF : forall id, emits (sys_free id) pollok) by (intros; eapply emits_weaken; [|apply emits_sys_free]; ok_other).
  apply emits_bind; [apply ok_fed_loop|]. intros earliest. cbv zeta.
  apply emits_bind; [apply emits_expiry; intros ev He Hp; congruence|]. intros first.
  destruct (first =? REPROC_DEADLINE); [apply emits_ret|].
  apply emits_bind; [eapply emits_weaken; [|apply emits_sys_calloc]; ok_other|]. intros blk.
  destruct (blk =? 0); [apply emits_ret|].
  destruct (negb (existsb _ _)). { apply emits_bind; [apply HF|]. intros _. apply emits_ret. }
  apply emits_bind; [apply ok_pipe_poll|]. intros [r [rev|]].
  - destruct ((r =? 0) && negb (first =? t)). { apply emits_bind; [apply HF|]. intros _. apply emits_ret. }
    destruct (0 <? r); apply emits_bind; try apply HF; intros _; apply emits_ret.
  - apply emits_bind; [apply HF|]. intros _. apply emits_ret.
Qed.

From Verif Require Import ProofsPure.

(* value of expiry with a non-negative time-out: the expired marker, or at most the time-out *)
Lemma emitsR_expiry_bound t d (P : event -> Prop) : 0 <= t -> (forall e, e_call e = CClock -> P e) ->
  emitsR (expiry t d) P (fun r => r = REPROC_DEADLINE \/ 0 <= r <= t).
Proof.
  intros Ht HP. unfold expiry.
  assert (Hv : forall n, expiry_pure t d n = REPROC_DEADLINE \/ 0 <= expiry_pure t d n <= t).
  { intros n. destruct (expiry_bound t d n _ Ht eq_refl) as [H|[H _]]; auto. }
  destruct (expiry_needs_clock t d).
  - eapply emitsR_bind with (R := fun _ => True); [apply emitsR_of_emits, emits_now, HP|].
    intros n _. apply emitsR_ret. apply Hv.
  - apply emitsR_ret. apply Hv.
Qed.

(* poll(t) with t >= 0 is never blocked longer than t, for every list of sources and deadlines *)
Theorem reproc_poll_bounded srcs t : 0 <= t -> emits (reproc_poll srcs t) (bounded t).
Proof.
  intros Ht. unfold reproc_poll. destruct srcs as [|s0 sr]; [apply emits_ret|]. set (srcs := s0 :: sr).
  assert (HF : forall id, emits (sys_free id) (bounded t)) by (intros; eapply emits_weaken; [|apply emits_sys_free]; bd_other).
  assert (Hfed : forall l i e mn, emits (fed_loop l i e mn) (bounded t)).
  { induction l as [|[[p|] x] r IH]; intros i e mn; cbn [fed_loop]; [apply emits_ret| |apply IH].
    apply emits_bind; [apply emits_expiry; intros ev He Hp; congruence|]. intros cur.
    destruct (cur =? REPROC_DEADLINE); [apply emits_ret|]. destruct (cur =? REPROC_INFINITE); [apply IH|].
    destruct ((mn =? REPROC_INFINITE) || (cur <? mn)); apply IH. }
  apply emits_bind; [apply Hfed|]. intros earliest. cbv zeta.
  eapply emits_of_emitsR. eapply emitsR_bind; [apply (emitsR_expiry_bound t _ (bounded t) Ht); intros ev He Hp; congruence|].
  intros first Hfirst. apply emitsR_of_emits.
  destruct (Z.eqb_spec first REPROC_DEADLINE); [apply emits_ret|]. destruct Hfirst as [Hd|Hb]; [contradiction|].
  apply emits_bind; [eapply emits_weaken; [|apply emits_sys_calloc]; bd_other|]. intros blk.
  destruct (blk =? 0); [apply emits_ret|].
  destruct (negb (existsb _ _)). { apply emits_bind; [apply HF|]. intros _. apply emits_ret. }
  apply emits_bind.
  { eapply emits_weaken; [|apply (pipe_poll_bounded _ first)]; [|lia]. intros e He Hp. specialize (He Hp). lia. }
  intros [r [rev|]].
  - destruct ((r =? 0) && negb (first =? t)). { apply emits_bind; [apply HF|]. intros _. apply emits_ret. }
    destruct (0 <? r); apply emits_bind; try apply HF; intros _; apply emits_ret.
  - apply emits_bind; [apply HF|]. intros _. apply emits_ret.
Qed.
