(* Properties_C17.v — C17: nonblocking mode never blocks.  Theorems only: the library-side
   mechanism (mode applied to the parent's end at creation; start-up input forces nonblocking
   mode before its first write and closes stdin after the last; a read/write is exactly one
   system call on that stream).  That a nonblocking descriptor never blocks in read/write is the
   world model's description of Linux, decided against the implementation by the tie. *)
From Verif Require Import Lib WorldSpec LibSpec LibSpec2.
From Coq Require Import Lia.
Local Open Scope Z_scope.

(* start-up input: nothing without data; else nonblocking mode first, then the writes, then close *)
Theorem C17_setup_input : forall pipe has_data src size,
  setup_input pipe has_data src size =
  (if negb has_data then ret (0, pipe) else
   let* r := pipe_nonblocking pipe true in
   if r <? 0 then ret (r, pipe) else
   let* r := input_loop (Z.to_nat (size / pipe_atomic) + 2) pipe src 0 size in
   if r <? 0 then ret (r, pipe) else
   let* p := pipe_destroy pipe in ret (0, p)).
Proof. reflexivity. Qed.
Print Assumptions C17_setup_input.

(* the input loop stops at the first error: start fails, it never retries a would-block *)
Theorem C17_input_loop_step : forall f pipe src written size,
  input_loop (S f) pipe src written size =
  (if written <? size then
     let* r := pipe_write pipe [RPos src written (size - written)] in
     if r <? 0 then ret r else input_loop f pipe src (written + r) size
   else ret 0).
Proof. reflexivity. Qed.
Print Assumptions C17_input_loop_step.

(* the mode is applied to the PARENT's end of each pipe: the write end for stdin, the read end otherwise *)
Theorem C17_mode_on_parent_end : forall parent child stream nb p0 p1 w r w',
  pipe_init w = Ret (r, Some (p0, p1)) w' ->
  redirect_pipe parent child stream nb w =
  (let* r := pipe_nonblocking (if stream =? REPROC_STREAM_IN then p1 else p0) nb in
   if r <? 0 then pipe_destroy p0 ;> pipe_destroy p1 ;> ret (r, parent, child)
   else ret (r, (if stream =? REPROC_STREAM_IN then p1 else p0), (if stream =? REPROC_STREAM_IN then p0 else p1))) w'.
Proof. intros. unfold redirect_pipe, bind at 1. rewrite H. reflexivity. Qed.
Print Assumptions C17_mode_on_parent_end.

(* setting the mode: one F_GETFL, one F_SETFL with O_NONBLOCK or'ed in (resp. masked out) *)
Theorem C17_pipe_nonblocking : forall p enable,
  pipe_nonblocking p enable =
  (let* r := sys_getfl p in
   if r <? 0 then let* e := get_errno in ret (- e) else
   let v := if enable then Z.lor r O_NONBLOCK else Z.land r (Z.lnot O_NONBLOCK) in
   let* r := sys_setfl p v in
   if r <? 0 then let* e := get_errno in ret (- e) else ret 0).
Proof. reflexivity. Qed.
Print Assumptions C17_pipe_nonblocking.

(* the world: a read on a nonblocking descriptor whose pipe has neither data nor hang-up returns EAGAIN at once *)
Example C17_ex : Z.lor 1 O_NONBLOCK = 2049.
Proof. reflexivity. Qed.
