(* MultiSpec.v — C05, descriptors, ANY NUMBER OF HANDLES: handles created by reproc_new at any
   point, calls on them interleaved in any order, destroys in any order; when every handle has
   been destroyed the caller's descriptor table is exactly what it was.  The single-handle
   machinery of FdSpec is lifted by re-basing: what the other handles own is, for the handle being
   operated on, part of "the caller's table", which FdSpec proves untouched. *)
From Verif Require Import Lib WorldSpec WorldSpec2 LibSpec WaitSpec ParentSpec StartSpec StopSpec FdSpec HeapSpec MemSpec RunSpec.
From Coq Require Import Lia Permutation.
Local Open Scope Z_scope.

Lemma fqn_perm T own own' c w : Permutation own own' -> fqn T own c w -> fqn T own' c w.
Proof.
  intros P [Hq Hn]. split; [|eapply Permutation_NoDup; eassumption].
  eapply fq_same; [exact Hq|]. intros x. split; intros Hx; [eapply Permutation_in; [apply Permutation_sym; exact P|exact Hx]|eapply Permutation_in; eassumption].
Qed.

(* the table as one handle sees it: everything currently open that it does not own *)
Definition rebase (A : list Z) (w : world) : gmap Z fdent := fold_right (fun fd m => delete fd m) (tb w) A.
Lemma rebase_lookup A w fd : rebase A w !! fd = if In_dec Z.eq_dec fd A then None else tb w !! fd.
Proof.
  unfold rebase. induction A as [|a A IH]; cbn [fold_right]; [reflexivity|].
  destruct (Z.eq_dec fd a) as [->|Hne].
  - rewrite lookup_delete. destruct (In_dec Z.eq_dec a (a :: A)) as [_|Hn]; [reflexivity|exfalso; apply Hn; left; reflexivity].
  - rewrite lookup_delete_ne by congruence. rewrite IH.
    destruct (In_dec Z.eq_dec fd A) as [Hi|Hn]; destruct (In_dec Z.eq_dec fd (a :: A)) as [Hi'|Hn']; try reflexivity.
    + exfalso. apply Hn'. right. exact Hi.
    + exfalso. destruct Hi' as [X|X]; [congruence|contradiction].
Qed.
Lemma NoDup_app_intro {X} (l k : list X) : NoDup l -> NoDup k -> (forall x, In x l -> ~ In x k) -> NoDup (l ++ k).
Proof.
  induction l as [|a l IH]; intros Hl Hk Hd; cbn [app]; [exact Hk|].
  inversion Hl; subst. constructor.
  - intros Hin. apply in_app_or in Hin as [Hin|Hin]; [contradiction|]. exact (Hd a (or_introl eq_refl) Hin).
  - apply IH; [assumption|exact Hk|]. intros x Hx. apply Hd. right. exact Hx.
Qed.
Lemma NoDup_app_l {X} (l k : list X) : NoDup (l ++ k) -> NoDup k.
Proof. induction l as [|a l IH]; cbn [app]; [auto|]. intros H. inversion H; subst. auto. Qed.
Lemma NoDup_app_disj {X} (l k : list X) x : NoDup (l ++ k) -> In x l -> ~ In x k.
Proof.
  induction l as [|a l IH]; intros H Hx; [destruct Hx|]. cbn [app] in H. inversion H; subst.
  destruct Hx as [->|Hx]; [intros Hk; apply H2, in_or_app; right; exact Hk|apply IH; assumption].
Qed.
Lemma NoDup_app_front {X} (l k : list X) : NoDup (l ++ k) -> NoDup l.
Proof.
  induction l as [|a l IH]; cbn [app]; [constructor|]. intros H. inversion H; subst. constructor; [|auto].
  intros Hin. apply H2, in_or_app. auto.
Qed.
Lemma fqn_rebase T A F c w : fqn T (A ++ F) c w -> fqn (rebase A w) A c w.
Proof.
  intros [(W & C & Hn & Ho) Hnd]. split; [|exact (NoDup_app_front _ _ Hnd)].
  split; [exact W|]. split; [exact C|]. split.
  - intros fd Hfd. rewrite rebase_lookup. destruct (In_dec Z.eq_dec fd A); [contradiction|reflexivity].
  - intros fd Hfd. rewrite rebase_lookup. destruct (In_dec Z.eq_dec fd A); [|contradiction].
    destruct (Ho fd (in_or_app _ _ _ (or_introl Hfd))) as (_ & B & Cc). auto.
Qed.
(* ... and back: what the handle owns now, next to what the others still own *)
Lemma fqn_release T A A' F c w w' : fqn T (A ++ F) c w -> fqn (rebase A w) A' c w' -> fqn T (A' ++ F) c w'.
Proof.
  intros [(W & C & Hn & Ho) Hnd] [(W' & C' & Hn' & Ho') Hnd'].
  assert (HF : forall fd, In fd F -> ~ In fd A) by (intros fd Hf Ha; exact (NoDup_app_disj _ _ _ Hnd Ha Hf)).
  assert (HFs : forall fd, In fd F -> rebase A w !! fd = tb w !! fd /\ is_Some (tb w !! fd)).
  { intros fd Hf. rewrite rebase_lookup. destruct (In_dec Z.eq_dec fd A) as [Ha|_]; [exfalso; exact (HF fd Hf Ha)|].
    split; [reflexivity|]. apply (Ho fd (in_or_app _ _ _ (or_intror Hf))). }
  assert (HFA' : forall fd, In fd F -> ~ In fd A').
  { intros fd Hf Ha'. destruct (Ho' fd Ha') as (X & _). destruct (HFs fd Hf) as [E [d Hd]]. rewrite E, Hd in X. discriminate. }
  split.
  2:{ apply NoDup_app_intro; [exact Hnd'|exact (NoDup_app_l _ _ Hnd)|]. intros x Hx Hf. exact (HFA' x Hf Hx). }
  split; [exact W'|]. split; [exact C'|]. split.
  - intros fd Hfd. assert (Na' : ~ In fd A') by (intros X; apply Hfd, in_or_app; auto).
    assert (Nf : ~ In fd F) by (intros X; apply Hfd, in_or_app; auto).
    rewrite (Hn' fd Na'), rebase_lookup. destruct (In_dec Z.eq_dec fd A) as [Ha|Na].
    + symmetry. apply (Ho fd (in_or_app _ _ _ (or_introl Ha))).
    + apply Hn. intros X. apply in_app_or in X as [X|X]; contradiction.
  - intros fd Hfd. apply in_app_or in Hfd as [Ha'|Hf].
    + destruct (Ho' fd Ha') as (X & Y & Z0). split; [|auto]. rewrite rebase_lookup in X.
      destruct (In_dec Z.eq_dec fd A) as [Ha|Na]; [apply (Ho fd (in_or_app _ _ _ (or_introl Ha)))|].
      assert (Nf : ~ In fd F). { intros Hf. destruct (HFs fd Hf) as [_ [d Hd]]. rewrite Hd in X. discriminate. }
      rewrite <- X. symmetry. apply Hn. intros Y0. apply in_app_or in Y0 as [Y0|Y0]; contradiction.
    + destruct (Ho fd (in_or_app _ _ _ (or_intror Hf))) as (X & _ & Z0). split; [exact X|]. split; [|exact Z0].
      rewrite (Hn' fd (HFA' fd Hf)). destruct (HFs fd Hf) as [E S]. rewrite E. exact S.
Qed.

(* ================= several handles ================= *)
Definition POWNS (ps : list rp) : list Z := concat (map POWN ps).
Definition side (c : Z) (p : rp) : Prop :=
  h_cout p = HANDLE_INVALID /\ h_cerr p = HANDLE_INVALID /\
  (h_status p = STATUS_NOT_STARTED ->
     h_in p = HANDLE_INVALID /\ h_out p = HANDLE_INVALID /\ h_err p = HANDLE_INVALID /\ Lib.h_exit p = HANDLE_INVALID /\ h_handle p = PROCESS_INVALID) /\
  (h_status p <> STATUS_NOT_STARTED -> c < h_handle p).
(* the live handles own exactly their pipe ends, pairwise distinct; all else is the caller's *)
Definition MI (T : gmap Z fdent) (c : Z) (ps : list rp) (w : world) : Prop :=
  fqn T (POWNS ps) c w /\ 0 <= c /\ Forall (side c) ps /\ NB w.

Lemma POWNS_app l k : POWNS (l ++ k) = POWNS l ++ POWNS k.
Proof. unfold POWNS. rewrite map_app, concat_app. reflexivity. Qed.
Lemma POWNS_mid l1 p l2 : Permutation (POWNS (l1 ++ p :: l2)) (POWN p ++ POWNS (l1 ++ l2)).
Proof.
  rewrite !POWNS_app. change (POWNS (p :: l2)) with (POWN p ++ POWNS l2). apply Permutation_app_swap_app.
Qed.
Lemma HI_of T c p w : fqn T (POWN p) c w -> 0 <= c -> side c p -> HI T c p w.
Proof. intros Hq Hc (S1 & S2 & S3 & S4). split; [exact Hq|]. split; [exact Hc|]. split; [exact S1|]. split; [exact S2|]. split; assumption. Qed.
Lemma side_of T c p w : HI T c p w -> side c p.
Proof. intros (_ & _ & S1 & S2 & S3 & S4). split; [exact S1|]. split; [exact S2|]. split; assumption. Qed.

Lemma MI_call T c ck l1 p l2 op w p' w' : MI T c (l1 ++ p :: l2) w -> (forall q, kp c (ck q)) ->
  run_hop ck p op w = Ret p' w' -> MI T c (l1 ++ p' :: l2) w'.
Proof.
  intros (Hq & Hc & Hs & Hnb) Hk E.
  pose proof (fqn_perm _ _ _ _ _ (POWNS_mid l1 p l2) Hq) as Hq1.
  apply Forall_app in Hs as [Hs1 Hs2]. inversion Hs2 as [|x l Hsp Hs2']; subst.
  pose proof (HN_run_hop _ _ _ _ _ _ _ _ (conj (HI_of _ _ _ _ (fqn_rebase _ _ _ _ _ Hq1) Hc Hsp) Hnb) Hk E) as [H1 Hnb1].
  split; [|split; [exact Hc|split; [apply Forall_app; split; [exact Hs1|constructor; [exact (side_of _ _ _ _ H1)|exact Hs2']]|exact Hnb1]]].
  apply (fqn_perm _ _ _ _ _ (Permutation_sym (POWNS_mid l1 p' l2))).
  exact (fqn_release _ _ _ _ _ _ _ Hq1 (proj1 H1)).
Qed.
Lemma MI_destroy T c l1 p l2 w u w' : MI T c (l1 ++ p :: l2) w -> reproc_destroy p w = Ret u w' -> MI T c (l1 ++ l2) w'.
Proof.
  intros (Hq & Hc & Hs & Hnb) E.
  pose proof (fqn_perm _ _ _ _ _ (POWNS_mid l1 p l2) Hq) as Hq1.
  apply Forall_app in Hs as [Hs1 Hs2]. inversion Hs2 as [|x l Hsp Hs2']; subst.
  destruct (HN_reproc_destroy _ _ _ _ _ _ (conj (HI_of _ _ _ _ (fqn_rebase _ _ _ _ _ Hq1) Hc Hsp) Hnb) E) as [H1 Hnb1].
  split; [|split; [exact Hc|split; [apply Forall_app; split; assumption|exact Hnb1]]].
  exact (fqn_release _ _ _ _ _ _ _ Hq1 H1).
Qed.
Lemma side_fresh c p : fresh_handle p -> side c p.
Proof.
  intros (F1 & F2 & F3 & F4 & F5 & F6 & F7 & F8). split; [exact F7|]. split; [exact F8|]. split; [auto|]. intros X. contradiction.
Qed.
Lemma POWN_fresh p : fresh_handle p -> POWN p = [].
Proof. intros (F1 & F2 & F3 & F4 & F5 & F6 & F7 & F8). unfold POWN. rewrite F3, F4, F5, F6. reflexivity. Qed.
Lemma MI_new T c ps w np w' : MI T c ps w -> reproc_new w = Ret np w' ->
  MI T c (match np with Some p => ps ++ [p] | None => ps end) w'.
Proof.
  intros (Hq & Hc & Hs & Hnb) E. unfold reproc_new in E. apply bind_inv in E as (b & w1 & Ea & E).
  pose proof (N_neutral _ _ _ _ _ _ _ (fc_heap_alloc _ _ _) Hq Ea) as Hq1.
  pose proof (pc_run _ _ _ _ (pc_heap_alloc _ _ _) ltac:(apply Hq) Ea) as P1.
  pose proof (NB_mono _ _ P1 Hnb) as Hnb1.
  destruct (b =? 0); apply ret_inv in E as [-> ->].
  - split; [exact Hq1|]. split; [exact Hc|]. split; assumption.
  - split.
    + rewrite POWNS_app. unfold POWNS at 2. cbn [map concat]. rewrite (POWN_fresh _ (fresh_rp_new b)). cbn [app]. rewrite app_nil_r. exact Hq1.
    + split; [exact Hc|]. split; [|exact Hnb1]. apply Forall_app. split; [exact Hs|]. constructor; [apply side_fresh, fresh_rp_new|constructor].
Qed.

Lemma MI_runex T c ps fuel argv o src s w x w' : MI T c ps w -> reproc_run_ex fuel argv o src s w = Ret x w' -> MI T c ps w'.
Proof.
  intros (Hq & Hc & Hs & Hnb) E.
  pose proof (fqn_rebase T [] (POWNS ps) c w Hq) as Hb.
  destruct (run_ex_fq _ _ _ _ _ _ _ _ _ _ Hb Hc Hnb E) as [H1 Hnb1].
  split; [exact (fqn_release T [] [] (POWNS ps) c w w' Hq H1)|]. split; [exact Hc|]. split; assumption.
Qed.

(* ---- histories over several handles ---- *)
Fixpoint split_at (i : nat) (ps : list rp) : option (list rp * rp * list rp) :=
  match ps, i with
  | [], _ => None
  | p :: r, O => Some ([], p, r)
  | p :: r, S j => match split_at j r with Some (l1, q, l2) => Some (p :: l1, q, l2) | None => None end
  end.
Lemma split_at_app i : forall ps l1 p l2, split_at i ps = Some (l1, p, l2) -> ps = l1 ++ p :: l2.
Proof.
  induction i as [|j IH]; intros [|a r] l1 p l2 H; cbn [split_at] in H; try discriminate.
  - injection H as <- <- <-. reflexivity.
  - destruct (split_at j r) as [[[m1 q] m2]|] eqn:E; [|discriminate]. injection H as <- <- <-.
    cbn [app]. f_equal. exact (IH _ _ _ _ E).
Qed.

Inductive mop :=
| MNew                             (* reproc_new: one more handle (or none, if the allocation fails) *)
| MCall (i : nat) (op : hop)       (* a call on the i-th live handle *)
| MDestroy (i : nat)               (* reproc_destroy of the i-th live handle *)
| MRunEx (fuel : nat) (argv : option (list str)) (o : options) (src : Z) (s : sinkst).   (* a whole reproc_run_ex in between *)

Definition run_mop (ck : rp -> MW unit) (ps : list rp) (m : mop) : MW (list rp) :=
  match m with
  | MNew => let* np := reproc_new in ret (match np with Some p => ps ++ [p] | None => ps end)
  | MCall i op =>
      match split_at i ps with
      | Some (l1, p, l2) => let* p' := run_hop ck p op in ret (l1 ++ p' :: l2)
      | None => ret ps
      end
  | MDestroy i =>
      match split_at i ps with
      | Some (l1, p, l2) => reproc_destroy p ;> ret (l1 ++ l2)
      | None => ret ps
      end
  | MRunEx fuel argv o src s => reproc_run_ex fuel argv o src s ;> ret ps
  end.
Fixpoint run_mops (ck : rp -> MW unit) (ps : list rp) (ms : list mop) : MW (list rp) :=
  match ms with
  | [] => ret ps
  | m :: rest => let* ps' := run_mop ck ps m in run_mops ck ps' rest
  end.
Fixpoint destroy_all (ps : list rp) : MW unit :=
  match ps with
  | [] => ret tt
  | p :: r => reproc_destroy p ;> destroy_all r
  end.

Lemma MI_run_mop T c ck ps m w ps' w' : MI T c ps w -> (forall q, kp c (ck q)) -> run_mop ck ps m w = Ret ps' w' -> MI T c ps' w'.
Proof.
  intros H Hk E. destruct m as [|i op|i|fuel argv o src s0]; cbn [run_mop] in E.
  - apply bind_inv in E as (np & w1 & E1 & E). apply ret_inv in E as [-> ->]. exact (MI_new _ _ _ _ _ _ H E1).
  - destruct (split_at i ps) as [[[l1 p] l2]|] eqn:Es; [|apply ret_inv in E as [-> ->]; exact H].
    apply split_at_app in Es. subst ps. apply bind_inv in E as (p' & w1 & E1 & E). apply ret_inv in E as [-> ->].
    exact (MI_call _ _ _ _ _ _ _ _ _ _ H Hk E1).
  - destruct (split_at i ps) as [[[l1 p] l2]|] eqn:Es; [|apply ret_inv in E as [-> ->]; exact H].
    apply split_at_app in Es. subst ps. apply bind_inv in E as (u & w1 & E1 & E). apply ret_inv in E as [-> ->].
    exact (MI_destroy _ _ _ _ _ _ _ _ H E1).
  - apply bind_inv in E as (x & w1 & E1 & E). apply ret_inv in E as [-> ->]. exact (MI_runex _ _ _ _ _ _ _ _ _ _ _ H E1).
Qed.
Lemma MI_run_mops T c ck ms : forall ps w ps' w', MI T c ps w -> (forall q, kp c (ck q)) -> run_mops ck ps ms w = Ret ps' w' -> MI T c ps' w'.
Proof.
  induction ms as [|m rest IH]; intros ps w ps' w' H Hk E; cbn [run_mops] in E.
  - apply ret_inv in E as [-> ->]. exact H.
  - apply bind_inv in E as (ps1 & w1 & E1 & E). exact (IH _ _ _ _ (MI_run_mop _ _ _ _ _ _ _ _ H Hk E1) Hk E).
Qed.
Lemma MI_destroy_all T c : forall ps w u w', MI T c ps w -> destroy_all ps w = Ret u w' -> MI T c [] w'.
Proof.
  induction ps as [|p r IH]; intros w u w' H E; cbn [destroy_all] in E.
  - apply ret_inv in E as [_ ->]. exact H.
  - apply bind_inv in E as (u1 & w1 & E1 & E). exact (IH _ _ _ (MI_destroy T c [] p r _ _ _ H E1) E).
Qed.

(* THE THEOREM, descriptors, any number of handles: handles made by reproc_new at any point, calls
   on them interleaved in any order (starts, restarts, reads, writes, closes, polls, waits,
   signals, stop sequences), destroys in any order, every fault plan; once the remaining handles
   have been destroyed too, the caller's descriptor table is exactly what it was at the beginning.
   And at every point in between (MI): every descriptor open beyond the initial table is a pipe end
   of exactly one live handle. *)
Theorem multi_history_restores_descriptor_table ck ms w u w' :
  wf w -> 0 <= w_cur w -> NB w -> (forall q, kp (w_cur w) (ck q)) ->
  (let* ps := run_mops ck [] ms in destroy_all ps) w = Ret u w' ->
  pr_fds (curp w') = pr_fds (curp w).
Proof.
  intros W Hpos Hnb Hk E. apply bind_inv in E as (ps & w1 & E1 & E).
  assert (H0 : MI (tb w) (w_cur w) [] w).
  { split; [split; [apply fq_start, W|constructor]|]. split; [exact Hpos|]. split; [constructor|exact Hnb]. }
  pose proof (MI_destroy_all _ _ _ _ _ _ (MI_run_mops _ _ _ _ _ _ _ _ H0 Hk E1) E) as ([Hq _] & _).
  exact (fq_end _ _ _ _ Hq (fun x X => X)).
Qed.

(* independence: a call on one handle leaves every descriptor of every other live handle exactly
   as it was (same object, same flags) -- and everything of the caller's *)
Theorem call_frames_other_handles T c ck l1 p l2 op w p' w' : MI T c (l1 ++ p :: l2) w -> (forall q, kp c (ck q)) ->
  run_hop ck p op w = Ret p' w' ->
  forall fd, ~ In fd (POWN p) -> ~ In fd (POWN p') -> pr_fds (curp w') !! fd = pr_fds (curp w) !! fd.
Proof.
  intros (Hq & Hc & Hs & Hnb) Hk E fd Hn Hn'.
  pose proof (fqn_perm _ _ _ _ _ (POWNS_mid l1 p l2) Hq) as Hq1.
  apply Forall_app in Hs as [Hs1 Hs2]. inversion Hs2 as [|x l Hsp Hs2']; subst.
  pose proof (HN_run_hop _ _ _ _ _ _ _ _ (conj (HI_of _ _ _ _ (fqn_rebase _ _ _ _ _ Hq1) Hc Hsp) Hnb) Hk E) as [H1 _].
  destruct H1 as ([(_ & _ & Hn1 & _) _] & _).
  change (tb w' !! fd = tb w !! fd). rewrite (Hn1 fd Hn'), rebase_lookup.
  destruct (In_dec Z.eq_dec fd (POWN p)); [contradiction|reflexivity].
Qed.
Lemma In_POWNS_other l1 p l2 fd : NoDup (POWNS (l1 ++ p :: l2)) -> In fd (POWNS (l1 ++ l2)) -> ~ In fd (POWN p).
Proof.
  intros Hn Hin Hp. pose proof (Permutation_NoDup (POWNS_mid l1 p l2) Hn) as Hn1.
  exact (NoDup_app_disj _ _ _ Hn1 Hp Hin).
Qed.
Theorem call_leaves_other_handles_untouched T c ck l1 p l2 op w p' w' : MI T c (l1 ++ p :: l2) w -> (forall q, kp c (ck q)) ->
  run_hop ck p op w = Ret p' w' ->
  forall fd, In fd (POWNS (l1 ++ l2)) -> pr_fds (curp w') !! fd = pr_fds (curp w) !! fd.
Proof.
  intros H Hk E fd Hin. pose proof (MI_call _ _ _ _ _ _ _ _ _ _ H Hk E) as H'.
  apply (call_frames_other_handles _ _ _ _ _ _ _ _ _ _ H Hk E).
  - apply (In_POWNS_other l1 p l2); [apply H|exact Hin].
  - apply (In_POWNS_other l1 p' l2); [apply H'|exact Hin].
Qed.
