(* Properties_C15.v — C15: destroy applies the stop policy; releases everything.  Theorems only. *)
From Verif Require Import Lib WorldSpec WorldSpec2 LibSpec LibSpec2 WaitSpec ParentSpec StopSpec TimeSpec FdSpec HeapSpec MemSpec.
Import Lib.
From Coq Require Import Lia.
Local Open Scope Z_scope.

(* destroy = (stop with the STORED policy iff the handle is running); then close the six pipe
   fields; then free the handle's block — the model's definition, stated as an equation *)
Theorem C15_destroy_is_stop_then_release : forall p,
  reproc_destroy p =
  (let* p := (if h_status p =? STATUS_IN_PROGRESS
              then let* '(_, p') := reproc_stop p (h_stop p) in ret p' else ret p) in
   pipe_destroy (h_in p) ;> pipe_destroy (h_out p) ;> pipe_destroy (h_err p) ;>
   pipe_destroy (h_exit p) ;> pipe_destroy (h_cout p) ;> pipe_destroy (h_cerr p) ;>
   sys_free (h_blk p)).
Proof. reflexivity. Qed.
Print Assumptions C15_destroy_is_stop_then_release.

(* everything destroy does, in every state and every world, is: the stop policy's kills/reap on
   the handle's own pid, polls of its exit pipe, closes of descriptors it owns, the free *)
Theorem C15_destroy_footprint : forall p, emits (reproc_destroy p) (api_ev p).
Proof. exact emits_reproc_destroy. Qed.
Print Assumptions C15_destroy_footprint.

(* not running (not started, failed start, exited, in child): no stop action at all *)
Theorem C15_no_stop_unless_running : forall p, h_status p <> STATUS_IN_PROGRESS ->
  reproc_destroy p =
  (pipe_destroy (h_in p) ;> pipe_destroy (h_out p) ;> pipe_destroy (h_err p) ;>
   pipe_destroy (h_exit p) ;> pipe_destroy (h_cout p) ;> pipe_destroy (h_cerr p) ;> sys_free (h_blk p)).
Proof.
  intros p H. unfold reproc_destroy. destruct (Z.eqb_spec (h_status p) STATUS_IN_PROGRESS); [contradiction|]. reflexivity.
Qed.
Print Assumptions C15_no_stop_unless_running.

(* the default policy (nothing given at start) is: wait until the deadline, then terminate and
   wait for ever — never kill, never give up *)
Theorem C15_default_policy :
  let s := parse_stop_actions null_stop in
  st_first s = {| sa_action := REPROC_STOP_WAIT; sa_timeout := REPROC_DEADLINE |} /\
  st_second s = {| sa_action := REPROC_STOP_TERMINATE; sa_timeout := REPROC_INFINITE |} /\
  sa_action (st_third s) = REPROC_STOP_NOOP.
Proof. apply parse_stop_default; reflexivity. Qed.
Print Assumptions C15_default_policy.

(* a failed start leaves a handle that destroy releases without any stop: its state is "not
   started" with every pipe field invalid *)
Theorem C15_failed_start_state : forall p argv o src k,
  post (reproc_start p argv o src k) (start_post p o argv).
Proof. exact post_reproc_start. Qed.
Print Assumptions C15_failed_start_state.

Example C15_ex : h_status (rp_new 3) <> STATUS_IN_PROGRESS.
Proof. cbn. unfold STATUS_NOT_STARTED, STATUS_IN_PROGRESS. lia. Qed.

(* destroy returns a running handle's child only reaped or after a failed action: the status its
   stop sequence obtains is that of the handle's own reaped child (every world, every stored
   policy), and no operating-system wait it makes exceeds the time-out it was given *)
Theorem C15_destroy_stop_status_is_reaped_childs : forall p w r p' w',
  WorldSpec2.wf w -> h_status p = STATUS_IN_PROGRESS -> 0 < h_handle p -> h_handle p <> w_cur w ->
  reproc_stop p (h_stop p) w = Ret (r, p') w' -> 0 <= r -> wait_exact p w r p' w'.
Proof. intros p w r p' w'. apply reproc_stop_exact. Qed.
Print Assumptions C15_destroy_stop_status_is_reaped_childs.
Theorem C15_destroy_polls_bounded : forall p, emits (reproc_destroy p) pollok.
Proof. exact ok_reproc_destroy. Qed.
Print Assumptions C15_destroy_polls_bounded.

(* RELEASES EVERYTHING, descriptors: in whatever state the handle is between two calls (invariant
   HI: it owns exactly its four pipe ends, all else in the caller's table is as at the beginning),
   destroy -- stop sequence included, under every fault plan, failing closes included -- leaves
   the caller's descriptor table exactly as it was before the handle existed *)
Theorem C15_destroy_releases_descriptors : forall T c p w u w',
  HI T c p w -> reproc_destroy p w = Ret u w' -> pr_fds (curp w') = T.
Proof. exact reproc_destroy_restores. Qed.
Print Assumptions C15_destroy_releases_descriptors.
(* the invariant holds for a handle as reproc_new makes it and is kept by every call *)
Theorem C15_handle_invariant_kept : forall T c ck ops p w p' w',
  HN T c p w -> (forall q, kp c (ck q)) -> run_hops ck p ops w = Ret p' w' -> HN T c p' w'.
Proof. intros T c ck ops p w p' w'. apply HN_run_hops. Qed.
Print Assumptions C15_handle_invariant_kept.
(* RELEASES EVERYTHING, memory: the handle's own block is released, nothing else is touched *)
Theorem C15_destroy_releases_the_handle_block : forall L p w u w',
  hq L [] w -> L (h_blk p) = true -> h_blk p <> 0 -> reproc_destroy p w = Ret u w' ->
  forall id, heap_live id w' = L id && negb (id =? h_blk p).
Proof. intros L p w u w' Hq HL Hnz E id. exact (hq_end _ _ (O_reproc_destroy _ _ _ _ _ Hq HL Hnz E) id). Qed.
Print Assumptions C15_destroy_releases_the_handle_block.
