(* World.v — state of the modelled operating system (DESIGN.md section 3.1).
   Definitions only. *)
From Verif Require Export Base.
Local Open Scope Z_scope.

Inductive acc := ARd | AWr | ARW.
Inductive obj :=
| OPipeR (p : Z)            (* read end of pipe p *)
| OPipeW (p : Z)            (* write end of pipe p *)
| ONull (a : acc)           (* /dev/null *)
| OFile (path : str) (a : acc)  (* opened by path *)
| OExt (id : Z) (a : acc).  (* object supplied by the caller (tty, user handle, FILE target) *)

Record fdent := { f_obj : obj; f_cloexec : bool; f_nonblock : bool }.

(* Pipe payload: positional runs (content implied by (src, off)) and short literals. *)
Inductive run := RPos (src off len : Z) | RLit (bytes : list Z).
Definition run_len (r : run) : Z :=
  match r with RPos _ _ n => n | RLit b => zlen b end.
Definition runs_len (rs : list run) : Z := fold_right (fun r a => run_len r + a) 0 rs.

Record pipe := { p_buf : list run; p_len : Z }.
Definition pipe_capacity : Z := 65536.
Definition pipe_atomic : Z := 4096.

Inductive disp := DDefault | DIgnore | DHandler | DScript (delay : Z) (code : option Z).
Global Instance disp_eq_dec : EqDecision disp.
Proof. solve_decision. Defined.
Inductive pstate := Running | Zombie (st : N) | Reaped (st : N).
Inductive pkind := KLib | KScript.

(* scripted behaviour of a child after exec (or of a fork-mode child after it
   returned to its caller) *)
Inductive act :=
| ASleep (ms : Z)
| AWrite (fd n : Z)
| ARead (fd n : Z)
| AReadAll (fd : Z)
| AClose (fd : Z)
| AExit (code : Z)
| ARaise (sig : Z)
| AIgnore (sig : Z)
| AHandle (sig delay : Z) (code : option Z)
| ASpawn (script : list act).

Inductive obs :=
| OData (fd : Z) (rs : list run) (t : Z)
| OEof (fd : Z) (t : Z)
| OSig (sig : Z) (t : Z).

Record image := {
  im_prog : str; im_argv : list str; im_env : list str; im_cwd : str;
  im_fds : list (Z * fdent); im_mask : list Z; im_disp : list (Z * disp); im_time : Z }.

Record proc := {
  pr_parent : Z; pr_kind : pkind; pr_fds : gmap Z fdent; pr_mask : list Z;
  pr_disp : gmap Z disp; pr_cwd : str; pr_env : list str; pr_errno : Z;
  pr_rlimit : Z;                      (* soft RLIMIT_NOFILE; -1 = infinity *)
  pr_state : pstate; pr_image : option image;
  pr_script : list act; pr_wake : Z;
  pr_woff : list (Z * Z);             (* bytes written so far per own descriptor *)
  pr_seen : list obs;                 (* newest first *)
  pr_end : option Z }.                (* time of death *)

Inductive fskind := FExec (script : list act) | FFile | FDir | FNoExec | FUnreadable.

Inductive callid :=
| CPipe | CGetfd | CSetfd | CGetfl | CSetfl | CClose | CRead | CWrite | CPoll | COpen
| CFileno | CDup2 | CDupfd | CFork | CExecvp | CExit | CWaitpid | CKill | CChdir | CGetcwd
| CGetrlimit | CSigfillset | CSigemptyset | CSigaction | CSigmask | CClock
| CMalloc | CCalloc | CRealloc | CFree | CStrdup.

Record event := {
  e_pid : Z; e_call : callid; e_args : list Z; e_sargs : list str;
  e_ret : Z; e_outs : list Z; e_errno : Z; e_time : Z; e_blocked : Z }.

Record world := {
  w_time : Z;                         (* ms *)
  w_subns : Z;                        (* constant sub-millisecond part of the clock, ns *)
  w_cur : Z;                          (* process currently running library code *)
  w_main : Z;                         (* the caller's process *)
  w_procs : gmap Z proc;
  w_pipes : gmap Z pipe;
  w_fs : list (str * fskind);
  w_next_pid : Z; w_next_pipe : Z;
  w_faults : list (Z * positive);     (* call index -> injected errno *)
  w_lat : list (Z * Z);               (* call index -> latency in ms *)
  w_calls : Z;
  w_heap : gmap Z (bool * Z);         (* block id -> (live, size) *)
  w_next_blk : Z;
  w_files : gmap Z (option Z);        (* FILE id -> fileno; None = closed FILE *)
  w_trace : list event;               (* newest first *)
  w_notes : list (Z * list Z) }.      (* ghost notes: results of child-side ops, ... (newest first) *)

(* ---- errno values used by the world (Linux/glibc; cross-checked against the
   headers by gen/Consts_gen.v in Tie.v) ---- *)
Definition EPERM := 1. Definition ENOENT := 2. Definition ESRCH := 3. Definition EINTR := 4.
Definition EIO := 5. Definition EBADF := 9. Definition ECHILD := 10. Definition EAGAIN := 11.
Definition ENOMEM := 12. Definition EACCES := 13. Definition ENOTDIR := 20. Definition EISDIR := 21.
Definition EINVAL := 22. Definition EMFILE := 24. Definition EPIPE := 32. Definition ERANGE := 34.
Definition ENAMETOOLONG := 36. Definition ETIMEDOUT := 110.

Definition O_RDONLY := 0. Definition O_WRONLY := 1. Definition O_RDWR := 2.
Definition O_CREAT := 64. Definition O_NONBLOCK := 2048. Definition O_CLOEXEC := 524288.
Definition FD_CLOEXEC := 1.
Definition POLLIN := 1. Definition POLLOUT := 4. Definition POLLERR := 8.
Definition POLLHUP := 16. Definition POLLNVAL := 32.
Definition SIGKILL := 9. Definition SIGTERM := 15. Definition SIGSTOP := 19. Definition SIGPIPE := 13.
Definition SIG_SETMASK := 2. Definition SIG_BLOCK := 0. Definition SIG_UNBLOCK := 1.

(* ---- record updates (hand-written; the model avoids a record-update library so
   that extraction and proofs see plain constructors) ---- *)
Definition fd_set_cloexec (b : bool) (f : fdent) : fdent :=
  {| f_obj := f_obj f; f_cloexec := b; f_nonblock := f_nonblock f |}.
Definition fd_set_nonblock (b : bool) (f : fdent) : fdent :=
  {| f_obj := f_obj f; f_cloexec := f_cloexec f; f_nonblock := b |}.

Definition pr_with_fds (t : gmap Z fdent) (p : proc) : proc :=
  {| pr_parent := pr_parent p; pr_kind := pr_kind p; pr_fds := t; pr_mask := pr_mask p;
     pr_disp := pr_disp p; pr_cwd := pr_cwd p; pr_env := pr_env p; pr_errno := pr_errno p;
     pr_rlimit := pr_rlimit p; pr_state := pr_state p; pr_image := pr_image p;
     pr_script := pr_script p; pr_wake := pr_wake p; pr_woff := pr_woff p;
     pr_seen := pr_seen p; pr_end := pr_end p |}.
Definition pr_with_mask (m : list Z) (p : proc) : proc :=
  {| pr_parent := pr_parent p; pr_kind := pr_kind p; pr_fds := pr_fds p; pr_mask := m;
     pr_disp := pr_disp p; pr_cwd := pr_cwd p; pr_env := pr_env p; pr_errno := pr_errno p;
     pr_rlimit := pr_rlimit p; pr_state := pr_state p; pr_image := pr_image p;
     pr_script := pr_script p; pr_wake := pr_wake p; pr_woff := pr_woff p;
     pr_seen := pr_seen p; pr_end := pr_end p |}.
Definition pr_with_disp (d : gmap Z disp) (p : proc) : proc :=
  {| pr_parent := pr_parent p; pr_kind := pr_kind p; pr_fds := pr_fds p; pr_mask := pr_mask p;
     pr_disp := d; pr_cwd := pr_cwd p; pr_env := pr_env p; pr_errno := pr_errno p;
     pr_rlimit := pr_rlimit p; pr_state := pr_state p; pr_image := pr_image p;
     pr_script := pr_script p; pr_wake := pr_wake p; pr_woff := pr_woff p;
     pr_seen := pr_seen p; pr_end := pr_end p |}.
Definition pr_with_cwd (c : str) (p : proc) : proc :=
  {| pr_parent := pr_parent p; pr_kind := pr_kind p; pr_fds := pr_fds p; pr_mask := pr_mask p;
     pr_disp := pr_disp p; pr_cwd := c; pr_env := pr_env p; pr_errno := pr_errno p;
     pr_rlimit := pr_rlimit p; pr_state := pr_state p; pr_image := pr_image p;
     pr_script := pr_script p; pr_wake := pr_wake p; pr_woff := pr_woff p;
     pr_seen := pr_seen p; pr_end := pr_end p |}.
Definition pr_with_env (e : list str) (p : proc) : proc :=
  {| pr_parent := pr_parent p; pr_kind := pr_kind p; pr_fds := pr_fds p; pr_mask := pr_mask p;
     pr_disp := pr_disp p; pr_cwd := pr_cwd p; pr_env := e; pr_errno := pr_errno p;
     pr_rlimit := pr_rlimit p; pr_state := pr_state p; pr_image := pr_image p;
     pr_script := pr_script p; pr_wake := pr_wake p; pr_woff := pr_woff p;
     pr_seen := pr_seen p; pr_end := pr_end p |}.
Definition pr_with_errno (e : Z) (p : proc) : proc :=
  {| pr_parent := pr_parent p; pr_kind := pr_kind p; pr_fds := pr_fds p; pr_mask := pr_mask p;
     pr_disp := pr_disp p; pr_cwd := pr_cwd p; pr_env := pr_env p; pr_errno := e;
     pr_rlimit := pr_rlimit p; pr_state := pr_state p; pr_image := pr_image p;
     pr_script := pr_script p; pr_wake := pr_wake p; pr_woff := pr_woff p;
     pr_seen := pr_seen p; pr_end := pr_end p |}.
Definition pr_with_rlimit (n : Z) (p : proc) : proc :=
  {| pr_parent := pr_parent p; pr_kind := pr_kind p; pr_fds := pr_fds p; pr_mask := pr_mask p;
     pr_disp := pr_disp p; pr_cwd := pr_cwd p; pr_env := pr_env p; pr_errno := pr_errno p;
     pr_rlimit := n; pr_state := pr_state p; pr_image := pr_image p;
     pr_script := pr_script p; pr_wake := pr_wake p; pr_woff := pr_woff p;
     pr_seen := pr_seen p; pr_end := pr_end p |}.
Definition pr_with_state (s : pstate) (p : proc) : proc :=
  {| pr_parent := pr_parent p; pr_kind := pr_kind p; pr_fds := pr_fds p; pr_mask := pr_mask p;
     pr_disp := pr_disp p; pr_cwd := pr_cwd p; pr_env := pr_env p; pr_errno := pr_errno p;
     pr_rlimit := pr_rlimit p; pr_state := s; pr_image := pr_image p;
     pr_script := pr_script p; pr_wake := pr_wake p; pr_woff := pr_woff p;
     pr_seen := pr_seen p; pr_end := pr_end p |}.
Definition pr_with_script (s : list act) (wake : Z) (p : proc) : proc :=
  {| pr_parent := pr_parent p; pr_kind := pr_kind p; pr_fds := pr_fds p; pr_mask := pr_mask p;
     pr_disp := pr_disp p; pr_cwd := pr_cwd p; pr_env := pr_env p; pr_errno := pr_errno p;
     pr_rlimit := pr_rlimit p; pr_state := pr_state p; pr_image := pr_image p;
     pr_script := s; pr_wake := wake; pr_woff := pr_woff p;
     pr_seen := pr_seen p; pr_end := pr_end p |}.
Definition pr_with_woff (o : list (Z * Z)) (p : proc) : proc :=
  {| pr_parent := pr_parent p; pr_kind := pr_kind p; pr_fds := pr_fds p; pr_mask := pr_mask p;
     pr_disp := pr_disp p; pr_cwd := pr_cwd p; pr_env := pr_env p; pr_errno := pr_errno p;
     pr_rlimit := pr_rlimit p; pr_state := pr_state p; pr_image := pr_image p;
     pr_script := pr_script p; pr_wake := pr_wake p; pr_woff := o;
     pr_seen := pr_seen p; pr_end := pr_end p |}.
Definition pr_with_seen (o : list obs) (p : proc) : proc :=
  {| pr_parent := pr_parent p; pr_kind := pr_kind p; pr_fds := pr_fds p; pr_mask := pr_mask p;
     pr_disp := pr_disp p; pr_cwd := pr_cwd p; pr_env := pr_env p; pr_errno := pr_errno p;
     pr_rlimit := pr_rlimit p; pr_state := pr_state p; pr_image := pr_image p;
     pr_script := pr_script p; pr_wake := pr_wake p; pr_woff := pr_woff p;
     pr_seen := o; pr_end := pr_end p |}.
(* death: state, descriptors dropped, time recorded *)
Definition pr_die (st : N) (reaped : bool) (t : Z) (p : proc) : proc :=
  {| pr_parent := pr_parent p; pr_kind := pr_kind p; pr_fds := ∅; pr_mask := pr_mask p;
     pr_disp := pr_disp p; pr_cwd := pr_cwd p; pr_env := pr_env p; pr_errno := pr_errno p;
     pr_rlimit := pr_rlimit p; pr_state := if reaped then Reaped st else Zombie st;
     pr_image := pr_image p;
     pr_script := []; pr_wake := pr_wake p; pr_woff := pr_woff p;
     pr_seen := pr_seen p; pr_end := Some t |}.
(* successful exec: image recorded, cloexec descriptors gone, scripted from now on *)
Definition pr_exec (im : image) (t : gmap Z fdent) (d : gmap Z disp) (s : list act) (wake : Z)
           (p : proc) : proc :=
  {| pr_parent := pr_parent p; pr_kind := KScript; pr_fds := t; pr_mask := pr_mask p;
     pr_disp := d; pr_cwd := pr_cwd p; pr_env := pr_env p; pr_errno := pr_errno p;
     pr_rlimit := pr_rlimit p; pr_state := pr_state p; pr_image := Some im;
     pr_script := s; pr_wake := wake; pr_woff := pr_woff p;
     pr_seen := pr_seen p; pr_end := pr_end p |}.
(* a fork-mode child that has returned to its caller and finished its child-side
   ops: scripted from now on, no image *)
Definition pr_become_script (s : list act) (wake : Z) (p : proc) : proc :=
  {| pr_parent := pr_parent p; pr_kind := KScript; pr_fds := pr_fds p; pr_mask := pr_mask p;
     pr_disp := pr_disp p; pr_cwd := pr_cwd p; pr_env := pr_env p; pr_errno := pr_errno p;
     pr_rlimit := pr_rlimit p; pr_state := pr_state p; pr_image := pr_image p;
     pr_script := s; pr_wake := wake; pr_woff := pr_woff p;
     pr_seen := pr_seen p; pr_end := pr_end p |}.
Definition pr_fork_copy (parent : Z) (p : proc) : proc :=
  {| pr_parent := parent; pr_kind := KLib; pr_fds := pr_fds p; pr_mask := pr_mask p;
     pr_disp := pr_disp p; pr_cwd := pr_cwd p; pr_env := pr_env p; pr_errno := pr_errno p;
     pr_rlimit := pr_rlimit p; pr_state := Running; pr_image := None;
     pr_script := []; pr_wake := 0; pr_woff := []; pr_seen := []; pr_end := None |}.
Definition pr_spawn_copy (parent : Z) (s : list act) (wake : Z) (p : proc) : proc :=
  {| pr_parent := parent; pr_kind := KScript; pr_fds := pr_fds p; pr_mask := pr_mask p;
     pr_disp := pr_disp p; pr_cwd := pr_cwd p; pr_env := pr_env p; pr_errno := 0;
     pr_rlimit := pr_rlimit p; pr_state := Running; pr_image := pr_image p;
     pr_script := s; pr_wake := wake; pr_woff := []; pr_seen := []; pr_end := None |}.

Definition dummy_proc : proc :=
  {| pr_parent := 0; pr_kind := KScript; pr_fds := ∅; pr_mask := []; pr_disp := ∅; pr_cwd := [];
     pr_env := []; pr_errno := 0; pr_rlimit := 0; pr_state := Reaped 0%N; pr_image := None;
     pr_script := []; pr_wake := 0; pr_woff := []; pr_seen := []; pr_end := None |}.

Definition w_with_procs (ps : gmap Z proc) (w : world) : world :=
  {| w_time := w_time w; w_subns := w_subns w; w_cur := w_cur w; w_main := w_main w;
     w_procs := ps; w_pipes := w_pipes w; w_fs := w_fs w; w_next_pid := w_next_pid w;
     w_next_pipe := w_next_pipe w; w_faults := w_faults w; w_lat := w_lat w;
     w_calls := w_calls w; w_heap := w_heap w; w_next_blk := w_next_blk w;
     w_files := w_files w; w_trace := w_trace w; w_notes := w_notes w |}.
Definition w_with_pipes (pp : gmap Z pipe) (w : world) : world :=
  {| w_time := w_time w; w_subns := w_subns w; w_cur := w_cur w; w_main := w_main w;
     w_procs := w_procs w; w_pipes := pp; w_fs := w_fs w; w_next_pid := w_next_pid w;
     w_next_pipe := w_next_pipe w; w_faults := w_faults w; w_lat := w_lat w;
     w_calls := w_calls w; w_heap := w_heap w; w_next_blk := w_next_blk w;
     w_files := w_files w; w_trace := w_trace w; w_notes := w_notes w |}.
Definition w_with_time (t : Z) (w : world) : world :=
  {| w_time := t; w_subns := w_subns w; w_cur := w_cur w; w_main := w_main w;
     w_procs := w_procs w; w_pipes := w_pipes w; w_fs := w_fs w; w_next_pid := w_next_pid w;
     w_next_pipe := w_next_pipe w; w_faults := w_faults w; w_lat := w_lat w;
     w_calls := w_calls w; w_heap := w_heap w; w_next_blk := w_next_blk w;
     w_files := w_files w; w_trace := w_trace w; w_notes := w_notes w |}.
Definition w_with_cur (c : Z) (w : world) : world :=
  {| w_time := w_time w; w_subns := w_subns w; w_cur := c; w_main := w_main w;
     w_procs := w_procs w; w_pipes := w_pipes w; w_fs := w_fs w; w_next_pid := w_next_pid w;
     w_next_pipe := w_next_pipe w; w_faults := w_faults w; w_lat := w_lat w;
     w_calls := w_calls w; w_heap := w_heap w; w_next_blk := w_next_blk w;
     w_files := w_files w; w_trace := w_trace w; w_notes := w_notes w |}.
Definition w_with_next_pid (n : Z) (w : world) : world :=
  {| w_time := w_time w; w_subns := w_subns w; w_cur := w_cur w; w_main := w_main w;
     w_procs := w_procs w; w_pipes := w_pipes w; w_fs := w_fs w; w_next_pid := n;
     w_next_pipe := w_next_pipe w; w_faults := w_faults w; w_lat := w_lat w;
     w_calls := w_calls w; w_heap := w_heap w; w_next_blk := w_next_blk w;
     w_files := w_files w; w_trace := w_trace w; w_notes := w_notes w |}.
Definition w_with_next_pipe (n : Z) (w : world) : world :=
  {| w_time := w_time w; w_subns := w_subns w; w_cur := w_cur w; w_main := w_main w;
     w_procs := w_procs w; w_pipes := w_pipes w; w_fs := w_fs w; w_next_pid := w_next_pid w;
     w_next_pipe := n; w_faults := w_faults w; w_lat := w_lat w;
     w_calls := w_calls w; w_heap := w_heap w; w_next_blk := w_next_blk w;
     w_files := w_files w; w_trace := w_trace w; w_notes := w_notes w |}.
Definition w_with_calls (n : Z) (w : world) : world :=
  {| w_time := w_time w; w_subns := w_subns w; w_cur := w_cur w; w_main := w_main w;
     w_procs := w_procs w; w_pipes := w_pipes w; w_fs := w_fs w; w_next_pid := w_next_pid w;
     w_next_pipe := w_next_pipe w; w_faults := w_faults w; w_lat := w_lat w;
     w_calls := n; w_heap := w_heap w; w_next_blk := w_next_blk w;
     w_files := w_files w; w_trace := w_trace w; w_notes := w_notes w |}.
Definition w_with_heap (h : gmap Z (bool * Z)) (n : Z) (w : world) : world :=
  {| w_time := w_time w; w_subns := w_subns w; w_cur := w_cur w; w_main := w_main w;
     w_procs := w_procs w; w_pipes := w_pipes w; w_fs := w_fs w; w_next_pid := w_next_pid w;
     w_next_pipe := w_next_pipe w; w_faults := w_faults w; w_lat := w_lat w;
     w_calls := w_calls w; w_heap := h; w_next_blk := n;
     w_files := w_files w; w_trace := w_trace w; w_notes := w_notes w |}.
Definition w_with_trace (t : list event) (w : world) : world :=
  {| w_time := w_time w; w_subns := w_subns w; w_cur := w_cur w; w_main := w_main w;
     w_procs := w_procs w; w_pipes := w_pipes w; w_fs := w_fs w; w_next_pid := w_next_pid w;
     w_next_pipe := w_next_pipe w; w_faults := w_faults w; w_lat := w_lat w;
     w_calls := w_calls w; w_heap := w_heap w; w_next_blk := w_next_blk w;
     w_files := w_files w; w_trace := t; w_notes := w_notes w |}.
Definition w_with_fs (f : list (str * fskind)) (w : world) : world :=
  {| w_time := w_time w; w_subns := w_subns w; w_cur := w_cur w; w_main := w_main w;
     w_procs := w_procs w; w_pipes := w_pipes w; w_fs := f; w_next_pid := w_next_pid w;
     w_next_pipe := w_next_pipe w; w_faults := w_faults w; w_lat := w_lat w;
     w_calls := w_calls w; w_heap := w_heap w; w_next_blk := w_next_blk w;
     w_files := w_files w; w_trace := w_trace w; w_notes := w_notes w |}.
Definition w_with_files (f : gmap Z (option Z)) (w : world) : world :=
  {| w_time := w_time w; w_subns := w_subns w; w_cur := w_cur w; w_main := w_main w;
     w_procs := w_procs w; w_pipes := w_pipes w; w_fs := w_fs w; w_next_pid := w_next_pid w;
     w_next_pipe := w_next_pipe w; w_faults := w_faults w; w_lat := w_lat w;
     w_calls := w_calls w; w_heap := w_heap w; w_next_blk := w_next_blk w;
     w_files := f; w_trace := w_trace w; w_notes := w_notes w |}.

Definition w_add_note (n : Z * list Z) (w : world) : world :=
  {| w_time := w_time w; w_subns := w_subns w; w_cur := w_cur w; w_main := w_main w;
     w_procs := w_procs w; w_pipes := w_pipes w; w_fs := w_fs w; w_next_pid := w_next_pid w;
     w_next_pipe := w_next_pipe w; w_faults := w_faults w; w_lat := w_lat w;
     w_calls := w_calls w; w_heap := w_heap w; w_next_blk := w_next_blk w;
     w_files := w_files w; w_trace := w_trace w; w_notes := n :: w_notes w |}.

(* ---- accessors ---- *)
Definition get_proc (pid : Z) (w : world) : proc := default dummy_proc (w_procs w !! pid).
Definition curp (w : world) : proc := get_proc (w_cur w) w.
Definition upd_proc (pid : Z) (f : proc -> proc) (w : world) : world :=
  match w_procs w !! pid with
  | Some p => w_with_procs (<[pid := f p]> (w_procs w)) w
  | None => w
  end.
Definition upd_cur (f : proc -> proc) (w : world) : world := upd_proc (w_cur w) f w.
Definition cur_fds (w : world) : gmap Z fdent := pr_fds (curp w).
Definition get_pipe (p : Z) (w : world) : pipe :=
  default {| p_buf := []; p_len := 0 |} (w_pipes w !! p).

(* does any live process hold a descriptor satisfying [f]? *)
Definition proc_holds (f : obj -> bool) (p : proc) : bool :=
  match pr_state p with
  | Running => existsb (fun kv => f (f_obj (snd kv))) (map_to_list (pr_fds p))
  | _ => false
  end.
Definition any_holds (f : obj -> bool) (w : world) : bool :=
  existsb (fun kv => proc_holds f (snd kv)) (map_to_list (w_procs w)).
Definition is_wr_of (p : Z) (o : obj) : bool :=
  match o with OPipeW q => Z.eqb p q | _ => false end.
Definition is_rd_of (p : Z) (o : obj) : bool :=
  match o with OPipeR q => Z.eqb p q | _ => false end.
Definition has_writer (p : Z) (w : world) : bool := any_holds (is_wr_of p) w.
Definition has_reader (p : Z) (w : world) : bool := any_holds (is_rd_of p) w.

(* lowest descriptor number not in the table, below [limit] (limit < 0: none) *)
Fixpoint lowest_free_from (t : gmap Z fdent) (i : Z) (fuel : nat) : Z :=
  match fuel with
  | O => i
  | S f => match t !! i with None => i | Some _ => lowest_free_from t (i + 1) f end
  end.
Definition lowest_free (t : gmap Z fdent) : Z := lowest_free_from t 0 (size t).
Definition fd_alloc (t : gmap Z fdent) (limit : Z) : option Z :=
  let i := lowest_free t in
  if (limit <? 0) || (i <? limit) then Some i else None.
