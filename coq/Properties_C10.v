(* Properties_C10.v — C10: each standard stream connected where the options say.  Theorems only:
   per-type constructor facts (which calls a redirect constructor makes, what it yields) and the
   regenerated installation order.  That the child's descriptors 0/1/2 end up referring to the
   requested objects is decided by the tie's exhaustive type-combination x layout families. *)
From Verif Require Import Lib WorldSpec LibSpec LibSpec2.
From Coq Require Import Lia.
Local Open Scope Z_scope.

(* the child ends are installed on 0, 1, 2 in the order in, out, err (regenerated from process_start) *)
Theorem C10_install_order : start_redirect = [E_in; E_out; E_err].
Proof. reflexivity. Qed.
Print Assumptions C10_install_order.

(* HANDLE: the child end is the caller's descriptor, no parent end, no system call at all *)
Theorem C10_handle_type : forall parent child stream rd nb out w, rd_type rd = REPROC_REDIRECT_HANDLE ->
  redirect_init parent child stream rd nb out w = Ret (0, PIPE_INVALID, rd_handle rd, rd) w.
Proof. intros parent child stream rd nb out w H. unfold redirect_init. rewrite H. reflexivity. Qed.
Print Assumptions C10_handle_type.

(* STDOUT (stderr only): the child end is the child's stdout end, no parent end, no system call *)
Theorem C10_stdout_type : forall parent child stream rd nb out w, rd_type rd = REPROC_REDIRECT_STDOUT ->
  redirect_init parent child stream rd nb out w = Ret (0, PIPE_INVALID, out, rd) w.
Proof. intros parent child stream rd nb out w H. unfold redirect_init. rewrite H. reflexivity. Qed.
Print Assumptions C10_stdout_type.

(* DISCARD / PATH open the null device resp. the path: read-only for stdin, write-only otherwise,
   create if missing, close-on-exec *)
Theorem C10_open_flags : forall stream,
  open_flags stream = Z.lor (Z.lor (if stream =? REPROC_STREAM_IN then O_RDONLY else O_WRONLY) O_CREAT) O_CLOEXEC.
Proof. reflexivity. Qed.
Print Assumptions C10_open_flags.
Theorem C10_discard_is_null_device : forall child stream, redirect_discard child stream = redirect_path child stream dev_null.
Proof. reflexivity. Qed.
Print Assumptions C10_discard_is_null_device.

(* PIPE: the parent gets the write end for stdin and the read end for stdout/stderr, the child the other end *)
Theorem C10_pipe_ends : forall parent child stream nb,
  redirect_pipe parent child stream nb =
  (let* '(r, pp) := pipe_init in
   match pp with
   | None => pipe_destroy PIPE_INVALID ;> pipe_destroy PIPE_INVALID ;> ret (r, parent, child)
   | Some (p0, p1) =>
       let* r := pipe_nonblocking (if stream =? REPROC_STREAM_IN then p1 else p0) nb in
       if r <? 0 then pipe_destroy p0 ;> pipe_destroy p1 ;> ret (r, parent, child)
       else ret (r, (if stream =? REPROC_STREAM_IN then p1 else p0), (if stream =? REPROC_STREAM_IN then p0 else p1))
   end).
Proof. reflexivity. Qed.
Print Assumptions C10_pipe_ends.

(* a parent end exists exactly for PIPE: every other type yields the invalid marker on success *)
Theorem C10_parent_end_only_for_pipe : forall parent child stream rd nb out,
  rd_type rd <> REPROC_REDIRECT_PIPE ->
  post (redirect_init parent child stream rd nb out)
       (fun res => let '(r, p, _, _) := res in 0 <= r -> p = PIPE_INVALID).
Proof.
  intros parent child stream rd nb out Hne. unfold redirect_init.
  destruct (Z.eqb_spec (rd_type rd) REPROC_REDIRECT_PIPE); [contradiction|].
  destruct (rd_type rd =? REPROC_REDIRECT_PARENT).
  { apply post_bind_any. intros [r c]. apply post_bind_any. intros [[r' c'] rd'].
    destruct (Z.ltb_spec r' 0); apply post_ret; [lia|reflexivity]. }
  destruct (rd_type rd =? REPROC_REDIRECT_DISCARD).
  { apply post_bind_any. intros [r c]. destruct (Z.ltb_spec r 0); apply post_ret; [lia|reflexivity]. }
  destruct (rd_type rd =? REPROC_REDIRECT_HANDLE); [apply post_ret; reflexivity|].
  destruct (rd_type rd =? REPROC_REDIRECT_FILE).
  { apply post_bind_any. intros [r c]. destruct (Z.ltb_spec r 0); apply post_ret; [lia|reflexivity]. }
  destruct (rd_type rd =? REPROC_REDIRECT_STDOUT); [apply post_ret; reflexivity|].
  destruct (rd_type rd =? REPROC_REDIRECT_PATH).
  { destruct (rd_path rd).
    - apply post_bind_any. intros [r c]. destruct (Z.ltb_spec r 0); apply post_ret; [lia|reflexivity].
    - apply post_ret. unfold REPROC_EINVAL. lia. }
  apply post_ret. unfold REPROC_EINVAL. lia.
Qed.
Print Assumptions C10_parent_end_only_for_pipe.

Example C10_ex : open_flags REPROC_STREAM_IN = 524352 /\ open_flags REPROC_STREAM_ERR = 524353.
Proof. split; reflexivity. Qed.
