(* Properties_C10.v — C10: each standard stream connected where the options say.  Theorems only:
   per-type constructor facts (which calls a redirect constructor makes, what it yields) and the
   regenerated installation order; and THE CHILD SIDE (C10_child_image_objects, proof in
   ChildObj.v): descriptors 0/1/2 of the exec'd image refer to the objects of the chosen child
   ends, for every inherited descriptor table. *)
From Verif Require Import Lib Build WorldSpec WorldSpec2 LibSpec LibSpec2 ChildSpec ChildObj.
From Coq Require Import Lia.
Local Open Scope Z_scope.

(* the child ends are installed on 0, 1, 2 in the order in, out, err (regenerated from process_start) *)
Theorem C10_install_order : start_redirect = [E_in; E_out; E_err].
Proof. reflexivity. Qed.
Print Assumptions C10_install_order.

(* HANDLE: the child end is the caller's descriptor, no parent end, no system call at all *)
Theorem C10_handle_type : forall parent child stream rd nb out w, rd_type rd = REPROC_REDIRECT_HANDLE ->
  redirect_init parent child stream rd nb out w = Ret (0, PIPE_INVALID, rd_handle rd, rd) w.
Proof. intros parent child stream rd nb out w H. unfold redirect_init. rewrite H. reflexivity. Qed.
Print Assumptions C10_handle_type.

(* STDOUT (stderr only): the child end is the child's stdout end, no parent end, no system call *)
Theorem C10_stdout_type : forall parent child stream rd nb out w, rd_type rd = REPROC_REDIRECT_STDOUT ->
  redirect_init parent child stream rd nb out w = Ret (0, PIPE_INVALID, out, rd) w.
Proof. intros parent child stream rd nb out w H. unfold redirect_init. rewrite H. reflexivity. Qed.
Print Assumptions C10_stdout_type.

(* DISCARD / PATH open the null device resp. the path: read-only for stdin, write-only otherwise,
   create if missing, close-on-exec *)
Theorem C10_open_flags : forall stream,
  open_flags stream = Z.lor (Z.lor (if stream =? REPROC_STREAM_IN then O_RDONLY else O_WRONLY) O_CREAT) O_CLOEXEC.
Proof. reflexivity. Qed.
Print Assumptions C10_open_flags.
Theorem C10_discard_is_null_device : forall child stream, redirect_discard child stream = redirect_path child stream dev_null.
Proof. reflexivity. Qed.
Print Assumptions C10_discard_is_null_device.

(* PIPE: the parent gets the write end for stdin and the read end for stdout/stderr, the child the other end *)
Theorem C10_pipe_ends : forall parent child stream nb,
  redirect_pipe parent child stream nb =
  (let* '(r, pp) := pipe_init in
   match pp with
   | None => pipe_destroy PIPE_INVALID ;> pipe_destroy PIPE_INVALID ;> ret (r, parent, child)
   | Some (p0, p1) =>
       let* r := pipe_nonblocking (if stream =? REPROC_STREAM_IN then p1 else p0) nb in
       if r <? 0 then pipe_destroy p0 ;> pipe_destroy p1 ;> ret (r, parent, child)
       else ret (r, (if stream =? REPROC_STREAM_IN then p1 else p0), (if stream =? REPROC_STREAM_IN then p0 else p1))
   end).
Proof. reflexivity. Qed.
Print Assumptions C10_pipe_ends.

(* a parent end exists exactly for PIPE: every other type yields the invalid marker on success *)
Theorem C10_parent_end_only_for_pipe : forall parent child stream rd nb out,
  rd_type rd <> REPROC_REDIRECT_PIPE ->
  post (redirect_init parent child stream rd nb out)
       (fun res => let '(r, p, _, _) := res in 0 <= r -> p = PIPE_INVALID).
Proof.
  intros parent child stream rd nb out Hne. unfold redirect_init.
  destruct (Z.eqb_spec (rd_type rd) REPROC_REDIRECT_PIPE); [contradiction|].
  destruct (rd_type rd =? REPROC_REDIRECT_PARENT).
  { apply post_bind_any. intros [r c]. apply post_bind_any. intros [[r' c'] rd'].
    destruct (Z.ltb_spec r' 0); apply post_ret; [lia|reflexivity]. }
  destruct (rd_type rd =? REPROC_REDIRECT_DISCARD).
  { apply post_bind_any. intros [r c]. destruct (Z.ltb_spec r 0); apply post_ret; [lia|reflexivity]. }
  destruct (rd_type rd =? REPROC_REDIRECT_HANDLE); [apply post_ret; reflexivity|].
  destruct (rd_type rd =? REPROC_REDIRECT_FILE).
  { apply post_bind_any. intros [r c]. destruct (Z.ltb_spec r 0); apply post_ret; [lia|reflexivity]. }
  destruct (rd_type rd =? REPROC_REDIRECT_STDOUT); [apply post_ret; reflexivity|].
  destruct (rd_type rd =? REPROC_REDIRECT_PATH).
  { destruct (rd_path rd).
    - apply post_bind_any. intros [r c]. destruct (Z.ltb_spec r 0); apply post_ret; [lia|reflexivity].
    - apply post_ret. unfold REPROC_EINVAL. lia. }
  apply post_ret. unfold REPROC_EINVAL. lia.
Qed.
Print Assumptions C10_parent_end_only_for_pipe.

(* THE CHILD SIDE, for every descriptor table the child inherits (any entries, any flags, any
   limit L >= 0) and whichever descriptors the three child ends are -- also 0, 1 or 2 themselves
   in any permutation (parent started with closed standard streams, user handles), also one
   descriptor for several streams: in any fault-free well-formed world, if the forked child
   reaches a successful exec then for each stream i in 0..2 the image has descriptor i open and it
   refers to the very object the child end chosen for stream i referred to at fork; exec mode
   never returns to the caller.  Through the closing loop, the moving of low child ends
   (F_DUPFD_CLOEXEC, whose result is a free slot by a pigeonhole argument), the dup2 /
   close-on-exec loop and the exit handle.  Premise: the three child ends are open descriptors
   other than the fork error pipe. *)
Theorem C10_child_image_objects : forall L t fprd fpwr sprd spwr av pg env o (k : MW unit) w,
  0 <= L ->
  (forall i, 0 <= i <= 2 -> is_Some (t !! src_of o i) /\ src_of o i <> fprd /\ src_of o i <> fpwr) ->
  stf L t w ->
  match fork_child_part fprd fpwr [po_in o; po_out o; po_err o; sprd; spwr; po_exit o]
                        (start_child_part sprd spwr (Some av) pg env o k) w with
  | Ret _ _ => False
  | Stop w' => forall im, pr_image (curp w') = Some im ->
                 forall i, 0 <= i <= 2 ->
                   exists d0 d, t !! src_of o i = Some d0 /\ In (i, d) (im_fds im) /\ f_obj d = f_obj d0
  | Hang _ | Crash _ _ => True
  end.
Proof. exact child_image_objects. Qed.
Print Assumptions C10_child_image_objects.

(* F_DUPFD never lands on an occupied slot, whatever the table *)
Theorem C10_dupfd_slot_free : forall (t : gmap Z fdent) i, t !! lowest_free_ge t i (size t) = None.
Proof. exact dupfd_slot_free. Qed.
Print Assumptions C10_dupfd_slot_free.

(* non-vacuity: stdin and stdout of the child are wanted on the parent's descriptors 1 and 0
   (swapped), stderr on 5; the premises hold and the run reaches exec with the objects swapped *)
Definition C10_ex_ent (id : Z) (cx : bool) := {| f_obj := OExt id ARW; f_cloexec := cx; f_nonblock := false |}.
Definition C10_ex_world : world :=
  build_world 1000 0 7 [(0, C10_ex_ent 10 false); (1, C10_ex_ent 11 false); (5, C10_ex_ent 12 false);
                        (6, C10_ex_ent 13 true); (8, C10_ex_ent 14 true); (9, C10_ex_ent 15 true)]
              [] [] [47] [] 24 [([47], FDir); ([47; 116], FExec [])] [] [] [].
Definition C10_ex_o : process_options :=
  {| po_env_behavior := 0; po_env_extra := None; po_wd := None; po_in := 1; po_out := 0; po_err := 5; po_exit := 6 |}.
Example C10_ex_child :
  let w := C10_ex_world in
  stf 24 (pr_fds (curp w)) w /\
  (forall i, 0 <= i <= 2 -> is_Some (pr_fds (curp w) !! src_of C10_ex_o i) /\ src_of C10_ex_o i <> 8 /\ src_of C10_ex_o i <> 9) /\
  match fork_child_part 8 9 [po_in C10_ex_o; po_out C10_ex_o; po_err C10_ex_o; 8; 9; po_exit C10_ex_o]
          (start_child_part 8 9 (Some [[47; 116]]) (Some (0, [47; 116])) (Some (0, [])) C10_ex_o (ret tt)) w with
  | Stop w' => match pr_image (curp w') with
               | Some im => map (fun kv => (fst kv, f_obj (snd kv))) (im_fds im)
               | None => [] end
  | _ => []
  end = [(0, OExt 11 ARW); (1, OExt 10 ARW); (2, OExt 12 ARW); (6, OExt 13 ARW)].
Proof.
  cbn zeta. split; [|split].
  - eexists. split; [|repeat split; reflexivity].
    split; [|split; reflexivity]. split.
    + eexists. split; [apply lookup_singleton|]. split; reflexivity.
    + intros k [x Hk]. cbn in Hk. apply lookup_singleton_Some in Hk. destruct Hk as [<- _]. cbn. lia.
  - intros i Hi. assert (Hc : i = 0 \/ i = 1 \/ i = 2) by lia.
    destruct Hc as [Hc|[Hc|Hc]]; subst i; (split; [vm_compute; eauto|split; vm_compute; discriminate]).
  - vm_compute. reflexivity.
Qed.

Example C10_ex : open_flags REPROC_STREAM_IN = 524352 /\ open_flags REPROC_STREAM_ERR = 524353.
Proof. split; reflexivity. Qed.
