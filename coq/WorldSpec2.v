(* WorldSpec2.v — level 2 specifications: the process-level frame (children's activity never
   touches the record of the process that runs library code) and a state-aware Hoare calculus
   with one specification per system call in terms of the current process's descriptor table. *)
From Verif Require Import Sys WorldSpec.
From Coq Require Import Lia.
Local Open Scope Z_scope.

(* ---- well-formed worlds ---- *)
(* the current process exists, runs library code, and process ids are allocated upwards *)
Record wf (w : world) : Prop := {
  wf_cur : exists p, w_procs w !! w_cur w = Some p /\ pr_kind p = KLib /\ pr_state p = Running;
  wf_fresh : forall k, is_Some (w_procs w !! k) -> k < w_next_pid w }.

Lemma curp_lookup w p : w_procs w !! w_cur w = Some p -> curp w = p.
Proof. intros H. unfold curp, get_proc. rewrite H. reflexivity. Qed.

(* ---- what scripted children can change: pipes, their own records, new processes ---- *)
(* [others_only k w w']: the process record at k is untouched, process ids stay fresh *)
Definition keeps (k : Z) (w w' : world) : Prop :=
  w_procs w' !! k = w_procs w !! k /\ w_next_pid w <= w_next_pid w' /\
  (forall j, is_Some (w_procs w' !! j) -> is_Some (w_procs w !! j) \/ (w_next_pid w <= j < w_next_pid w')).

Lemma keeps_refl k w : keeps k w w.
Proof. repeat split; auto. lia. Qed.

Lemma keeps_trans k w1 w2 w3 : keeps k w1 w2 -> keeps k w2 w3 -> keeps k w1 w3.
Proof.
  intros (A1 & B1 & C1) (A2 & B2 & C2). repeat split; try congruence; try lia.
  intros j Hj. destruct (C2 j Hj) as [H|H]; [destruct (C1 j H) as [H'|H']; [auto|right; lia]|right; lia].
Qed.

Lemma keeps_upd_proc k pid f w : pid <> k -> keeps k w (upd_proc pid f w).
Proof.
  intros Hne. unfold upd_proc. destruct (w_procs w !! pid) eqn:E; [|apply keeps_refl].
  repeat split; cbn; try lia.
  - rewrite lookup_insert_ne by congruence. reflexivity.
  - intros j Hj. left. destruct (decide (j = pid)) as [->|Hn]; [rewrite E; eauto|].
    rewrite lookup_insert_ne in Hj by congruence. exact Hj.
Qed.
Lemma keeps_set_pipe k q p w : keeps k w (set_pipe q p w).
Proof. repeat split; cbn; auto; lia. Qed.
Lemma keeps_kill_proc k pid st w : pid <> k -> keeps k w (kill_proc pid st w).
Proof. intros H. unfold kill_proc. apply keeps_upd_proc. exact H. Qed.

Ltac keeps_chain :=
  repeat first
    [ apply keeps_refl
    | apply keeps_set_pipe
    | (apply keeps_upd_proc; assumption)
    | (apply keeps_kill_proc; assumption)
    | (eapply keeps_trans; [|apply keeps_upd_proc; assumption])
    | (eapply keeps_trans; [|apply keeps_kill_proc; assumption])
    | (eapply keeps_trans; [|apply keeps_set_pipe]) ].

Lemma keeps_step_child k pid w w' :
  step_child pid w = Some w' -> pid <> k -> k < w_next_pid w -> keeps k w w'.
Proof.
  unfold step_child. intros H Hne Hk.
  destruct (pr_state (get_proc pid w)); try discriminate.
  destruct (pr_kind (get_proc pid w)); try discriminate.
  destruct (w_time w <? pr_wake (get_proc pid w)); try discriminate.
  destruct (pr_script (get_proc pid w)) as [|a rest].
  { injection H as <-. keeps_chain. }
  destruct a.
  - injection H as <-. keeps_chain.
  - destruct (n <=? 0). { injection H as <-. keeps_chain. }
    destruct (pr_fds (get_proc pid w) !! fd) as [[o cx nb]|].
    2:{ injection H as <-. keeps_chain. }
    destruct o; try (injection H as <-; keeps_chain).
    cbn [f_obj] in H.
    destruct (negb (has_reader p w)).
    { destruct (disp_of (get_proc pid w) SIGPIPE); injection H as <-; keeps_chain. }
    destruct (pipe_free_cap (w_pipecap w) (get_pipe p w) <=? 0); try discriminate.
    injection H as <-.
    destruct (Z.min n (pipe_free_cap (w_pipecap w) (get_pipe p w)) <? n); keeps_chain.
  - destruct (pr_fds (get_proc pid w) !! fd) as [[o cx nb]|].
    2:{ injection H as <-. keeps_chain. }
    destruct o; try (injection H as <-; keeps_chain).
    cbn [f_obj] in H.
    destruct (0 <? p_len (get_pipe p w)).
    { destruct (pipe_take n (get_pipe p w)). injection H as <-. keeps_chain. }
    destruct (has_writer p w); try discriminate. injection H as <-. keeps_chain.
  - destruct (pr_fds (get_proc pid w) !! fd) as [[o cx nb]|].
    2:{ injection H as <-. keeps_chain. }
    destruct o; try (injection H as <-; keeps_chain).
    cbn [f_obj] in H.
    destruct (0 <? p_len (get_pipe p w)).
    { destruct (pipe_take (p_len (get_pipe p w)) (get_pipe p w)). injection H as <-. keeps_chain. }
    destruct (has_writer p w); try discriminate. injection H as <-. keeps_chain.
  - injection H as <-. keeps_chain.
  - injection H as <-. keeps_chain.
  - injection H as <-. keeps_chain.
  - injection H as <-. keeps_chain.
  - injection H as <-. keeps_chain.
  - (* spawn: a new record at the fresh id *)
    injection H as <-.
    set (w1 := upd_proc pid (pr_with_script rest (pr_wake (get_proc pid w))) w).
    assert (K1 : keeps k w w1) by (apply keeps_upd_proc; assumption).
    destruct K1 as (A & B & C).
    assert (Hn : w_next_pid w1 = w_next_pid w).
    { unfold w1, upd_proc. destruct (w_procs w !! pid); reflexivity. }
    repeat split; cbn.
    + rewrite lookup_insert_ne by lia. exact A.
    + lia.
    + intros j Hj. destruct (decide (j = w_next_pid w)) as [->|Hne'].
      * right. lia.
      * rewrite lookup_insert_ne in Hj by congruence. destruct (C j Hj) as [H|H]; [auto|lia].
Qed.

Lemma step_child_kind pid w w' : step_child pid w = Some w' ->
  pr_kind (get_proc pid w) = KScript /\ pr_state (get_proc pid w) = Running.
Proof.
  unfold step_child. destruct (pr_state (get_proc pid w)); try discriminate.
  destruct (pr_kind (get_proc pid w)); [discriminate|auto].
Qed.

Lemma keeps_get_proc k w w' : keeps k w w' -> get_proc k w' = get_proc k w.
Proof. intros (A & _). unfold get_proc. rewrite A. reflexivity. Qed.

Lemma keeps_with_time k t w : keeps k w (w_with_time t w).
Proof. repeat split; cbn; auto; lia. Qed.

(* the record of a process that runs library code survives any amount of children's activity *)
(* [k] is never stepped by the scheduler: it runs library code, or it has ended *)
Definition lib_at (k : Z) (w : world) : Prop :=
  (pr_kind (get_proc k w) = KLib \/ pr_state (get_proc k w) <> Running) /\ k < w_next_pid w.

Lemma lib_at_keeps k w w' : lib_at k w -> keeps k w w' -> lib_at k w'.
Proof.
  intros [Hk Hn] K. split; [rewrite (keeps_get_proc _ _ _ K); exact Hk|]. destruct K as (_ & B & _). lia.
Qed.

Lemma keeps_settle_pass k pids : forall w, lib_at k w -> keeps k w (snd (settle_pass pids w)).
Proof.
  induction pids as [|pid rest IH]; intros w L; cbn [settle_pass]; [apply keeps_refl|].
  destruct (step_child pid w) as [w'|] eqn:E.
  - assert (Hne : pid <> k).
    { intros ->. pose proof (step_child_kind _ _ _ E) as [Hs Hr]. destruct L as [[Hk|Hk] _]; congruence. }
    assert (K : keeps k w w') by (eapply keeps_step_child; [exact E|exact Hne|apply L]).
    specialize (IH w' (lib_at_keeps _ _ _ L K)).
    destruct (settle_pass rest w') as [b w'']. cbn [snd] in *. eapply keeps_trans; eassumption.
  - apply IH. exact L.
Qed.

Lemma keeps_settle_fuel k fuel : forall w w', lib_at k w -> settle_fuel fuel w = Some w' -> keeps k w w'.
Proof.
  induction fuel as [|f IH]; intros w w' L H; cbn [settle_fuel] in H; [discriminate|].
  pose proof (keeps_settle_pass k (script_pids w) w L) as Kp.
  destruct (settle_pass (script_pids w) w) as [moved w1]. cbn [snd] in Kp.
  destruct moved.
  - eapply keeps_trans; [exact Kp|]. apply IH; [eapply lib_at_keeps; eassumption|exact H].
  - injection H as <-. exact Kp.
Qed.
Lemma keeps_settle k w w' : lib_at k w -> settle w = Some w' -> keeps k w w'.
Proof. apply keeps_settle_fuel. Qed.

Lemma keeps_advance_fuel k fuel t : forall w w', lib_at k w -> advance_fuel fuel t w = Some w' -> keeps k w w'.
Proof.
  induction fuel as [|f IH]; intros w w' L H; cbn [advance_fuel] in H; [discriminate|].
  destruct (settle w) as [w1|] eqn:E1; [|discriminate].
  pose proof (keeps_settle k _ _ L E1) as K1. pose proof (lib_at_keeps _ _ _ L K1) as L1.
  assert (KT : forall t', keeps k w (w_with_time t' w1)) by (intros t'; eapply keeps_trans; [exact K1|apply keeps_with_time]).
  assert (LT : forall t', lib_at k (w_with_time t' w1)) by (intros t'; eapply lib_at_keeps; [exact L|apply KT]).
  destruct (next_instant w1) as [ni|].
  - destruct (ni <=? t).
    + eapply keeps_trans; [apply (KT ni)|]. apply IH; [apply LT|exact H].
    + destruct (w_time w1 <? t).
      * eapply keeps_trans; [apply (KT t)|]. eapply keeps_settle; [apply LT|exact H].
      * injection H as <-. exact K1.
  - destruct (w_time w1 <? t).
    + eapply keeps_trans; [apply (KT t)|]. eapply keeps_settle; [apply LT|exact H].
    + injection H as <-. exact K1.
Qed.
Lemma keeps_advance_to k t w w' : lib_at k w -> advance_to t w = Some w' -> keeps k w w'.
Proof. apply keeps_advance_fuel. Qed.

Lemma keeps_block_fuel k fuel ready dl : forall w, lib_at k w -> keeps k w (blocked_world (block_fuel fuel ready dl w)).
Proof.
  induction fuel as [|f IH]; intros w L; cbn [block_fuel]; [apply keeps_refl|].
  destruct (settle w) as [w1|] eqn:E1; [|apply keeps_refl].
  pose proof (keeps_settle k _ _ L E1) as K1.
  assert (KT : forall t', keeps k w (w_with_time t' w1)) by (intros t'; eapply keeps_trans; [exact K1|apply keeps_with_time]).
  assert (LT : forall t', lib_at k (w_with_time t' w1)) by (intros t'; eapply lib_at_keeps; [exact L|apply KT]).
  destruct (ready w1); [exact K1|].
  destruct (next_instant w1) as [ni|]; destruct dl as [d|]; cbn [blocked_world].
  - destruct (d <? ni).
    + cbn [blocked_world]. destruct (w_time w1 <? d); [apply KT|exact K1].
    + eapply keeps_trans; [apply (KT ni)|]. apply IH. apply LT.
  - eapply keeps_trans; [apply (KT ni)|]. apply IH. apply LT.
  - destruct (w_time w1 <? d); [apply KT|exact K1].
  - exact K1.
Qed.
Lemma keeps_block_until k ready tmo w : lib_at k w -> keeps k w (blocked_world (block_until ready tmo w)).
Proof. apply keeps_block_fuel. Qed.

(* ---- prelude: the current process record is untouched ---- *)
Lemma wf_lib_at w : wf w -> lib_at (w_cur w) w.
Proof.
  intros [(p & Hp & Hk & _) Hf]. split.
  - left. unfold get_proc. rewrite Hp. exact Hk.
  - apply Hf. rewrite Hp. eauto.
Qed.

Lemma keeps_wf w w' : wf w -> keeps (w_cur w) w w' -> w_cur w' = w_cur w -> wf w'.
Proof.
  intros [(p & Hp & Hk & Hs) Hf] (A & B & C) Hc. split.
  - exists p. rewrite Hc, A. auto.
  - intros j Hj. destruct (C j Hj) as [H|H]; [specialize (Hf j H); lia|lia].
Qed.

Lemma prelude_spec w : wf w ->
  match prelude w with
  | Ret f w1 => wf w1 /\ w_cur w1 = w_cur w /\ curp w1 = curp w /\ w_trace w1 = w_trace w
                /\ f = assocZ (w_calls w) (w_faults w) /\ w_faults w1 = w_faults w /\ w_calls w1 = w_calls w + 1
                /\ w_main w1 = w_main w /\ w_heap w1 = w_heap w /\ w_files w1 = w_files w /\ w_fs w1 = w_fs w
  | Crash _ _ => True
  | _ => False
  end.
Proof.
  intros W. unfold prelude.
  set (w0 := w_with_calls (w_calls w + 1) w).
  destruct (advance_to _ w0) as [w2|] eqn:E; [|exact I].
  assert (W0 : wf w0). { destruct W as [C F]. split; [exact C|exact F]. }
  pose proof (flat_advance_to _ _ _ E) as F. unfold flat in F. injection F as Ft Fc Fm Ff Fl Fca Fh Fnb Ffi Ffs.
  pose proof (keeps_advance_to (w_cur w0) _ _ _ (wf_lib_at _ W0) E) as K.
  assert (Hc : w_cur w2 = w_cur w) by (rewrite Fc; reflexivity).
  split; [eapply keeps_wf; [exact W0|exact K|rewrite Fc; reflexivity]|].
  split; [exact Hc|].
  split. { unfold curp. rewrite Hc. change (w_cur w) with (w_cur w0). rewrite (keeps_get_proc _ _ _ K). reflexivity. }
  split; [rewrite Ft; reflexivity|].
  split; [reflexivity|].
  split; [rewrite Ff; reflexivity|].
  split; [rewrite Fca; reflexivity|].
  split; [rewrite Fm; reflexivity|].
  split; [rewrite Fh; reflexivity|].
  split; [rewrite Ffi; reflexivity|rewrite Ffs; reflexivity].
Qed.

(* ================= a state-aware Hoare calculus ================= *)
(* post-conditions for normal return and for "the process stopped running library code"
   (successful exec, _exit); Hang and Crash are unconstrained (partial correctness) *)
Definition hoare {A} (P : world -> Prop) (m : MW A) (Q : A -> world -> Prop) (QS : world -> Prop) : Prop :=
  forall w, P w -> match m w with Ret a w' => Q a w' | Stop w' => QS w' | Hang _ => True | Crash _ _ => True end.

Lemma hoare_ret {A} (a : A) (P : world -> Prop) (Q : A -> world -> Prop) QS : (forall w, P w -> Q a w) -> hoare P (ret a) Q QS.
Proof. intros H w Hp. cbn. apply H, Hp. Qed.

Lemma hoare_bind {A B} (m : MW A) (f : A -> MW B) P (R : A -> world -> Prop) (Q : B -> world -> Prop) QS :
  hoare P m R QS -> (forall a, hoare (R a) (f a) Q QS) -> hoare P (bind m f) Q QS.
Proof.
  intros Hm Hf w Hp. unfold bind. specialize (Hm w Hp). destruct (m w) as [a w1|w1|w1|y w1]; auto.
  apply (Hf a w1 Hm).
Qed.

Lemma hoare_conseq {A} (m : MW A) (P P' : world -> Prop) (Q Q' : A -> world -> Prop) (QS QS' : world -> Prop) :
  (forall w, P' w -> P w) -> (forall a w, Q a w -> Q' a w) -> (forall w, QS w -> QS' w) ->
  hoare P m Q QS -> hoare P' m Q' QS'.
Proof.
  intros HP HQ HS H w Hp. specialize (H w (HP w Hp)). destruct (m w); auto.
Qed.

Lemma hoare_pre {A} (m : MW A) (P : world -> Prop) (Q : A -> world -> Prop) QS :
  (forall w, P w -> hoare (fun w' => w' = w) m Q QS) -> hoare P m Q QS.
Proof. intros H w Hp. apply (H w Hp w eq_refl). Qed.

(* ---- the state library proofs talk about: a well-formed, fault-free world and the current
   process's record up to errno ---- *)
Definition noerr (p : proc) : proc := pr_with_errno 0 p.
Definition st (p : proc) (w : world) : Prop := wf w /\ w_faults w = [] /\ noerr (curp w) = noerr p.

Lemma prelude_nofault w : wf w -> w_faults w = [] ->
  match prelude w with
  | Ret f w1 => f = None /\ wf w1 /\ w_faults w1 = [] /\ w_cur w1 = w_cur w /\ curp w1 = curp w /\ w_files w1 = w_files w /\ w_fs w1 = w_fs w /\ w_main w1 = w_main w
  | Crash _ _ => True
  | _ => False
  end.
Proof.
  intros W F. pose proof (prelude_spec w W) as H. destruct (prelude w) as [f w1|w1|w1|y w1]; auto.
  destruct H as (W1 & Hc & Hp & _ & Hf & Hfa & _ & Hm & _ & Hfi & Hfs).
  split; [rewrite Hf, F; reflexivity|]. split; [exact W1|]. split; [congruence|].
  split; [exact Hc|]. split; [exact Hp|]. split; [exact Hfi|]. split; [exact Hfs|exact Hm].
Qed.

(* updating the current process keeps the world well formed when kind and state are kept *)
Lemma wf_upd_cur f w : wf w -> (forall p, pr_kind (f p) = pr_kind p /\ pr_state (f p) = pr_state p) -> wf (upd_cur f w).
Proof.
  intros [(p & Hp & Hk & Hs) Hf] Hpres. unfold upd_cur, upd_proc. rewrite Hp. split; cbn.
  - exists (f p). rewrite lookup_insert. destruct (Hpres p) as [A B]. split; [reflexivity|]. split; congruence.
  - intros j Hj. apply Hf. destruct (decide (j = w_cur w)) as [->|Hne]; [rewrite Hp; eauto|].
    rewrite lookup_insert_ne in Hj by congruence. exact Hj.
Qed.
Lemma curp_upd_cur f w : wf w -> curp (upd_cur f w) = f (curp w).
Proof.
  intros [(p & Hp & _) _]. unfold upd_cur, upd_proc, curp, get_proc. rewrite Hp. cbn. rewrite lookup_insert. reflexivity.
Qed.
Lemma wf_with_trace t w : wf w -> wf (w_with_trace t w).
Proof. intros [C F]. split; [exact C|exact F]. Qed.

(* the effect of [fail] / [done] on the state: only errno and the trace change *)
Lemma st_fail p c args sargs e w : st p w ->
  match fail c args sargs e w with Ret r w' => r = -1 /\ st p w' /\ pr_errno (curp w') = e /\ w_files w' = w_files w /\ w_fs w' = w_fs w | _ => False end.
Proof.
  intros (W & F & E). unfold fail, bind, set_errno, modify, log, ret. cbn.
  assert (W1 : wf (upd_cur (pr_with_errno e) w)) by (apply wf_upd_cur; [exact W|intros q; split; reflexivity]).
  split; [reflexivity|]. split.
  - split; [apply wf_with_trace, W1|]. split.
    + cbn. unfold upd_cur, upd_proc. destruct (w_procs w !! w_cur w); exact F.
    + unfold curp, get_proc. cbn. fold (get_proc (w_cur (upd_cur (pr_with_errno e) w)) (upd_cur (pr_with_errno e) w)).
      fold (curp (upd_cur (pr_with_errno e) w)). rewrite curp_upd_cur by exact W. unfold noerr in *. destruct (curp w); cbn in *. exact E.
  - split.
    + unfold curp, get_proc. cbn. fold (get_proc (w_cur (upd_cur (pr_with_errno e) w)) (upd_cur (pr_with_errno e) w)).
      fold (curp (upd_cur (pr_with_errno e) w)). rewrite curp_upd_cur by exact W. reflexivity.
    + unfold upd_cur, upd_proc. destruct (w_procs w !! w_cur w); split; reflexivity.
Qed.
Lemma st_done p c args sargs r outs w : st p w ->
  match done c args sargs r outs w with Ret r' w' => r' = r /\ st p w' /\ w_files w' = w_files w /\ w_fs w' = w_fs w | _ => False end.
Proof.
  intros (W & F & E). unfold done, bind, log, modify, ret. cbn. split; [reflexivity|]. split; [|split; reflexivity].
  split; [apply wf_with_trace, W|]. split; [exact F|exact E].
Qed.

(* ---- projections through noerr ---- *)
Lemma noerr_fds p q : noerr p = noerr q -> pr_fds p = pr_fds q.
Proof. intros H. apply (f_equal pr_fds) in H. exact H. Qed.
Lemma noerr_rlimit p q : noerr p = noerr q -> pr_rlimit p = pr_rlimit q.
Proof. intros H. apply (f_equal pr_rlimit) in H. exact H. Qed.
Lemma noerr_mask p q : noerr p = noerr q -> pr_mask p = pr_mask q.
Proof. intros H. apply (f_equal pr_mask) in H. exact H. Qed.
Lemma noerr_disp p q : noerr p = noerr q -> pr_disp p = pr_disp q.
Proof. intros H. apply (f_equal pr_disp) in H. exact H. Qed.
Lemma noerr_cwd p q : noerr p = noerr q -> pr_cwd p = pr_cwd q.
Proof. intros H. apply (f_equal pr_cwd) in H. exact H. Qed.
Lemma noerr_env p q : noerr p = noerr q -> pr_env p = pr_env q.
Proof. intros H. apply (f_equal pr_env) in H. exact H. Qed.
Lemma noerr_image p q : noerr p = noerr q -> pr_image p = pr_image q.
Proof. intros H. apply (f_equal pr_image) in H. exact H. Qed.

(* record updates that commute with noerr and keep kind / state *)
Definition nice (f : proc -> proc) : Prop :=
  (forall p, noerr (f p) = f (noerr p)) /\ (forall p, pr_kind (f p) = pr_kind p /\ pr_state (f p) = pr_state p)
  /\ (forall p q, noerr p = noerr q -> noerr (f p) = noerr (f q)).

Lemma nice_with_fds t : nice (pr_with_fds t).
Proof.
  split; [reflexivity|]. split; [intros; split; reflexivity|].
  intros p q H. change (noerr (pr_with_fds t p)) with (pr_with_fds t (noerr p)). change (noerr (pr_with_fds t q)) with (pr_with_fds t (noerr q)). rewrite H. reflexivity.
Qed.
Lemma nice_with_mask m : nice (pr_with_mask m).
Proof.
  split; [reflexivity|]. split; [intros; split; reflexivity|].
  intros p q H. change (noerr (pr_with_mask m p)) with (pr_with_mask m (noerr p)). change (noerr (pr_with_mask m q)) with (pr_with_mask m (noerr q)). rewrite H. reflexivity.
Qed.
Lemma nice_with_disp d : nice (pr_with_disp d).
Proof.
  split; [reflexivity|]. split; [intros; split; reflexivity|].
  intros p q H. change (noerr (pr_with_disp d p)) with (pr_with_disp d (noerr p)). change (noerr (pr_with_disp d q)) with (pr_with_disp d (noerr q)). rewrite H. reflexivity.
Qed.
Lemma nice_with_cwd c : nice (pr_with_cwd c).
Proof.
  split; [reflexivity|]. split; [intros; split; reflexivity|].
  intros p q H. change (noerr (pr_with_cwd c p)) with (pr_with_cwd c (noerr p)). change (noerr (pr_with_cwd c q)) with (pr_with_cwd c (noerr q)). rewrite H. reflexivity.
Qed.
Lemma nice_with_env e : nice (pr_with_env e).
Proof.
  split; [reflexivity|]. split; [intros; split; reflexivity|].
  intros p q H. change (noerr (pr_with_env e p)) with (pr_with_env e (noerr p)). change (noerr (pr_with_env e q)) with (pr_with_env e (noerr q)). rewrite H. reflexivity.
Qed.

Lemma st_upd p f w : nice f -> st p w -> st (f p) (upd_cur f w) /\ w_files (upd_cur f w) = w_files w /\ w_fs (upd_cur f w) = w_fs w.
Proof.
  intros (Hc & Hk & Hq) (W & F & E). split.
  - split; [apply wf_upd_cur; [exact W|exact Hk]|]. split.
    + unfold upd_cur, upd_proc. destruct (w_procs w !! w_cur w); exact F.
    + rewrite curp_upd_cur by exact W. apply Hq. exact E.
  - unfold upd_cur, upd_proc. destruct (w_procs w !! w_cur w); split; reflexivity.
Qed.

(* ---- specifications, fault-free worlds ---- *)
Lemma hoare_pure {A} (P0 : Prop) (P : world -> Prop) (m : MW A) (Q : A -> world -> Prop) QS :
  (P0 -> hoare P m Q QS) -> hoare (fun w => P0 /\ P w) m Q QS.
Proof. intros H w [H0 Hp]. apply (H H0 w Hp). Qed.

Section Specs.
  Context {QS : world -> Prop}.

  Lemma h_prelude p : hoare (st p) prelude (fun f w' => f = None /\ st p w') QS.
  Proof.
    intros w (W & F & E). pose proof (prelude_nofault w W F) as H.
    destruct (prelude w) as [f w1|w1|w1|y w1]; auto; try contradiction.
    destruct H as (-> & W1 & F1 & C1 & P1 & _). split; [reflexivity|]. split; [exact W1|]. split; [exact F1|]. rewrite P1. exact E.
  Qed.
  Lemma h_fail p c args sargs e : hoare (st p) (fail c args sargs e) (fun r w' => r = -1 /\ st p w' /\ pr_errno (curp w') = e) QS.
  Proof. intros w S. pose proof (st_fail p c args sargs e w S) as H. destruct (fail c args sargs e w); try contradiction. tauto. Qed.
  Lemma h_done p c args sargs r outs : hoare (st p) (done c args sargs r outs) (fun r' w' => r' = r /\ st p w') QS.
  Proof. intros w S. pose proof (st_done p c args sargs r outs w S) as H. destruct (done c args sargs r outs w); try contradiction. tauto. Qed.
  Lemma h_upd p f : nice f -> hoare (st p) (modify (upd_cur f)) (fun _ w' => st (f p) w') QS.
  Proof. intros N w S. cbn. apply (st_upd p f w N S). Qed.
  Lemma h_set_cur_fds p t : hoare (st p) (set_cur_fds t) (fun _ w' => st (pr_with_fds t p) w') QS.
  Proof. apply h_upd. apply nice_with_fds. Qed.
  Lemma h_gets_fds p : hoare (st p) (gets cur_fds) (fun t w' => t = pr_fds p /\ st p w') QS.
  Proof. intros w S. cbn. split; [|exact S]. destruct S as (_ & _ & E). unfold cur_fds. apply (noerr_fds _ _ E). Qed.
  Lemma h_get p : hoare (st p) get (fun w0 w' => w0 = w' /\ st p w') QS.
  Proof. intros w S. cbn. auto. Qed.
  Lemma h_get_errno p : hoare (st p) get_errno (fun e w' => st p w' /\ e = pr_errno (curp w')) QS.
  Proof. intros w S. cbn. auto. Qed.

  Ltac hb := eapply hoare_bind.
  Ltac hpre := apply hoare_pure; intros ->.

  Lemma h_getfd p fd : hoare (st p) (sys_getfd fd)
    (fun r w' => st p w' /\ r = match pr_fds p !! fd with Some d => (if f_cloexec d then FD_CLOEXEC else 0) | None => -1 end
                 /\ (pr_fds p !! fd = None -> pr_errno (curp w') = EBADF)) QS.
  Proof.
    unfold sys_getfd. hb; [apply h_prelude|]. intros f. hpre.
    hb; [apply h_gets_fds|]. intros t. hpre.
    destruct (pr_fds p !! fd) as [d|].
    - eapply hoare_conseq; [| | |apply h_done]; [intros w S; exact S|intros a w [-> S]; split; [exact S|split; [reflexivity|intros X; discriminate X]]|auto].
    - eapply hoare_conseq; [| | |apply h_fail]; [intros w S; exact S|intros a w (-> & S & He); auto|auto].
  Qed.

  Lemma h_setfd p fd v : hoare (st p) (sys_setfd fd v)
    (fun r w' => match pr_fds p !! fd with
                 | Some d => r = 0 /\ st (pr_with_fds (<[fd := fd_set_cloexec (has_bit v FD_CLOEXEC) d]> (pr_fds p)) p) w'
                 | None => r = -1 /\ st p w' end) QS.
  Proof.
    unfold sys_setfd. hb; [apply h_prelude|]. intros f. hpre.
    hb; [apply h_gets_fds|]. intros t. hpre.
    destruct (pr_fds p !! fd) as [d|].
    - hb; [apply h_set_cur_fds|]. intros u0; cbv beta. eapply hoare_conseq; [| | |apply h_done]; [intros w' S'; exact S'|intros r w' [-> S']; auto|auto].
    - eapply hoare_conseq; [| | |apply h_fail]; [intros w S; exact S|intros a w (-> & S & _); auto|auto].
  Qed.

  Lemma h_close p fd : hoare (st p) (sys_close fd)
    (fun r w' => match pr_fds p !! fd with
                 | Some _ => r = 0 /\ st (pr_with_fds (delete fd (pr_fds p)) p) w'
                 | None => r = -1 /\ st p w' end) QS.
  Proof.
    unfold sys_close. hb; [apply h_prelude|]. intros f. hpre.
    hb; [apply h_gets_fds|]. intros t. hpre.
    destruct (pr_fds p !! fd) as [d|].
    - hb; [apply h_set_cur_fds|]. intros u0; cbv beta. eapply hoare_conseq; [| | |apply h_done]; [intros w' S'; exact S'|intros r w' [-> S']; auto|auto].
    - eapply hoare_conseq; [| | |apply h_fail]; [intros w S; exact S|intros a w (-> & S & _); auto|auto].
  Qed.

  Lemma h_dup2 p a b : hoare (st p) (sys_dup2 a b)
    (fun r w' => match pr_fds p !! a with
                 | Some d => if b <? 0 then r = -1 /\ st p w' /\ pr_errno (curp w') = EBADF
                             else if a =? b then r = b /\ st p w'
                             else r = b /\ st (pr_with_fds (<[b := fd_set_cloexec false d]> (pr_fds p)) p) w'
                 | None => r = -1 /\ st p w' /\ pr_errno (curp w') = EBADF end) QS.
  Proof.
    unfold sys_dup2. hb; [apply h_prelude|]. intros f. hpre.
    hb; [apply h_gets_fds|]. intros t. hpre.
    destruct (pr_fds p !! a) as [d|].
    - destruct (b <? 0); [apply h_fail|].
      destruct (a =? b).
      { eapply hoare_conseq; [| | |apply h_done]; [intros w' S'; exact S'|intros r w' [-> S']; auto|auto]. }
      hb; [apply h_set_cur_fds|]. intros u0; cbv beta. eapply hoare_conseq; [| | |apply h_done]; [intros w' S'; exact S'|intros r w' [-> S']; auto|auto].
    - apply h_fail.
  Qed.

  Lemma h_dupfd p fd minfd cx : hoare (st p) (sys_dupfd fd minfd cx)
    (fun r w' => match pr_fds p !! fd with
                 | Some d =>
                     let n := lowest_free_ge (pr_fds p) (Z.max 0 minfd) (size (pr_fds p)) in
                     if (0 <=? pr_rlimit p) && (pr_rlimit p <=? n) then r = -1 /\ st p w' /\ pr_errno (curp w') = EMFILE
                     else r = n /\ st (pr_with_fds (<[n := fd_set_cloexec cx d]> (pr_fds p)) p) w'
                 | None => r = -1 /\ st p w' /\ pr_errno (curp w') = EBADF end) QS.
  Proof.
    unfold sys_dupfd. hb; [apply h_prelude|]. intros f. hpre.
    hb; [apply h_get|]. intros w0. apply hoare_pre. intros w [-> S]. 
    pose proof S as (_ & _ & E). rewrite (noerr_fds _ _ E), (noerr_rlimit _ _ E).
    eapply hoare_conseq with (P := st p); [intros ? ->; exact S| | |]; [intros a w' H; exact H|intros w' H; exact H|].
    destruct (pr_fds p !! fd) as [d|].
    - cbn zeta. destruct ((0 <=? pr_rlimit p) && (pr_rlimit p <=? _)); [apply h_fail|].
      hb; [apply h_set_cur_fds|]. intros u0; cbv beta. eapply hoare_conseq; [| | |apply h_done]; [intros w' S'; exact S'|intros r w' [-> S']; auto|auto].
    - apply h_fail.
  Qed.

  Lemma h_getrlimit p : hoare (st p) sys_getrlimit (fun r w' => r = (0, pr_rlimit p) /\ st p w') QS.
  Proof.
    unfold sys_getrlimit. hb; [apply h_prelude|]. intros f. hpre.
    hb; [apply h_get|]. intros w0. apply hoare_pre. intros w [-> S].
    pose proof S as (_ & _ & E). rewrite (noerr_rlimit _ _ E).
    eapply hoare_conseq with (P := st p); [intros ? ->; exact S| | |]; [intros a w' H; exact H|intros w' H; exact H|].
    hb; [apply h_done|]. intros r. hpre. apply hoare_ret. auto.
  Qed.

  Lemma h_sigemptyset p : hoare (st p) sys_sigemptyset (fun r w' => r = 0 /\ st p w') QS.
  Proof.
    unfold sys_sigemptyset. hb; [apply h_prelude|]. intros f. hpre. apply h_done.
  Qed.

  Definition disp_after (sg h : Z) (d : gmap Z disp) : gmap Z disp :=
    if h =? 0 then delete sg d else <[sg := if h =? 1 then DIgnore else DHandler]> d.

  Lemma h_sigaction p sg h : hoare (st p) (sys_sigaction sg h)
    (fun r w' => if (sg <? 1) || (64 <? sg) || (sg =? SIGKILL) || (sg =? SIGSTOP)
                 then r = -1 /\ st p w' /\ pr_errno (curp w') = EINVAL
                 else r = 0 /\ st (pr_with_disp (disp_after sg h (pr_disp p)) p) w') QS.
  Proof.
    unfold sys_sigaction. hb; [apply h_prelude|]. intros f. hpre.
    destruct ((sg <? 1) || (64 <? sg) || (sg =? SIGKILL) || (sg =? SIGSTOP)); [apply h_fail|].
    hb.
    - apply (h_upd p (fun q => pr_with_disp (disp_after sg h (pr_disp q)) q)).
      split; [reflexivity|]. split; [intros; split; reflexivity|].
      intros p0 q H0. pose proof (noerr_disp _ _ H0) as Hd.
      change (noerr (pr_with_disp ?x p0)) with (pr_with_disp x (noerr p0)).
      change (noerr (pr_with_disp ?x q)) with (pr_with_disp x (noerr q)). rewrite Hd, H0. reflexivity.
    - intros u0; cbv beta. apply h_done.
  Qed.

  Lemma h_sigmask p how ns : hoare (st p) (sys_sigmask how ns)
    (fun r w' => exists m, st (pr_with_mask m p) w' /\
                 (ns = Some [] -> how = SIG_SETMASK -> fst r = 0 /\ m = [])) QS.
  Proof.
    unfold sys_sigmask. hb; [apply h_prelude|]. intros f. hpre.
    hb; [apply h_get|]. intros w0. apply hoare_pre. intros w [-> S].
    pose proof S as (_ & _ & E). rewrite (noerr_mask _ _ E).
    eapply hoare_conseq with (P := st p); [intros ? ->; exact S|intros a w' X; exact X|intros w' X; exact X|].
    assert (Hlog : forall q args r outs, hoare (st q) (log CSigmask args [] r outs 0) (fun _ w' => st q w') QS).
    { intros q args r outs w1 (W1 & F1 & E1). cbn. split; [apply wf_with_trace, W1|]. split; [exact F1|exact E1]. }
    destruct ns as [s|].
    - destruct ((how =? SIG_SETMASK) || (how =? SIG_BLOCK) || (how =? SIG_UNBLOCK)) eqn:Eh.
      + hb; [apply (h_upd p _ (nice_with_mask _))|]. intros u; cbv beta.
        hb; [apply Hlog|]. intros u1; cbv beta. apply hoare_ret. intros w1 S1. eexists. split; [exact S1|].
        cbn. intros Hs Hh. injection Hs as ->. subst how. cbn. auto.
      + hb; [apply Hlog|]. intros u; cbv beta. apply hoare_ret. intros w1 S1. exists (pr_mask p).
        split; [destruct p; exact S1|]. intros _ Hh. subst how. cbn in Eh. discriminate.
    - hb; [apply Hlog|]. intros u; cbv beta. apply hoare_ret. intros w1 S1. exists (pr_mask p).
      split; [destruct p; exact S1|]. intros Hx. discriminate.
  Qed.

  Lemma h_chdir p path : hoare (st p) (sys_chdir path)
    (fun r w' => (r = 0 /\ st (pr_with_cwd (abs_path (pr_cwd p) path) p) w') \/ (r = -1 /\ st p w' /\ 0 < pr_errno (curp w'))) QS.
  Proof.
    unfold sys_chdir. hb; [apply h_prelude|]. intros f. hpre.
    destruct (match path with [] => true | _ => false end).
    { eapply hoare_conseq; [| | |apply h_fail]; [intros w1 S1; exact S1|intros r w1 (-> & S1 & He); right; split; [reflexivity|split; [exact S1|rewrite He; unfold ENOENT; lia]]|auto]. }
    hb; [apply h_get|]. intros w0. apply hoare_pre. intros w [-> S].
    pose proof S as (_ & _ & E). rewrite (noerr_cwd _ _ E).
    eapply hoare_conseq with (P := st p); [intros ? ->; exact S|intros a w' X; exact X|intros w' X; exact X|].
    destruct (fs_lookup _ w) as [[]|].
    all: try (eapply hoare_conseq; [| | |apply h_fail]; [intros w1 S1; exact S1|intros r w1 (-> & S1 & He); right; split; [reflexivity|split; [exact S1|rewrite He; unfold ENOTDIR, ENOENT; lia]]|auto]).
    hb; [apply (h_upd p _ (nice_with_cwd _))|]. intros u; cbv beta.
    eapply hoare_conseq; [| | |apply h_done]; [intros w1 S1; exact S1|intros r w1 [-> S1]; left; auto|auto].
  Qed.

  Lemma h_set_environ p e : hoare (st p) (set_environ e) (fun _ w' => st (pr_with_env e p) w') QS.
  Proof. apply h_upd. apply nice_with_env. Qed.
End Specs.

(* ---- write: children may run while the call blocks; the caller's record is untouched ---- *)
Definition wr_world (r : write_res) : world :=
  match r with WDone _ w | WErr _ w | WHang w | WFuel w => w end.

Lemma keeps_put_runs k q rs w : keeps k w (put_runs q rs w).
Proof. unfold put_runs. apply keeps_set_pipe. Qed.
Lemma flat_put_runs q rs w : flat (put_runs q rs w) = flat w.
Proof. reflexivity. Qed.

Lemma write_loop_frame k fuel q nb : forall data written w, lib_at k w ->
  keeps k w (wr_world (write_loop fuel q nb data written w)) /\ flat (wr_world (write_loop fuel q nb data written w)) = flat w.
Proof.
  induction fuel as [|f IH]; intros data written w L; cbn [write_loop]; [split; [apply keeps_refl|reflexivity]|].
  destruct (negb (has_reader q w)). { destruct (written =? 0); split; try apply keeps_refl; reflexivity. }
  destruct (runs_len data <=? 0). { split; [apply keeps_refl|reflexivity]. }
  cbn zeta.
  destruct (write_need (runs_len data) <=? pipe_free_cap (w_pipecap w) (get_pipe q w)).
  - destruct (take_runs _ data) as [a rest].
    set (w1 := put_runs q a w).
    assert (K1 : keeps k w w1) by apply keeps_put_runs.
    assert (L1 : lib_at k w1) by (eapply lib_at_keeps; eassumption).
    destruct nb. { split; [exact K1|reflexivity]. }
    destruct (runs_len data - _ <=? 0). { split; [exact K1|reflexivity]. }
    pose proof (keeps_block_until k (pipe_writable_for q (write_need (runs_len data - Z.min (runs_len data) (pipe_free_cap (w_pipecap w) (get_pipe q w))))) (-1) w1 L1) as KB.
    pose proof (flat_block_until (pipe_writable_for q (write_need (runs_len data - Z.min (runs_len data) (pipe_free_cap (w_pipecap w) (get_pipe q w))))) (-1) w1) as FB.
    destruct (block_until _ (-1) w1) as [w2|w2|w2|w2]; cbn [blocked_world wr_world] in *.
    + destruct (IH rest (written + Z.min (runs_len data) (pipe_free_cap (w_pipecap w) (get_pipe q w))) w2 (lib_at_keeps _ _ _ L1 KB)) as [K2 F2].
      split; [eapply keeps_trans; [exact K1|eapply keeps_trans; [exact KB|exact K2]]|rewrite F2, FB; reflexivity].
    + split; [exact (keeps_trans _ _ _ _ K1 KB)|rewrite FB; reflexivity].
    + split; [exact (keeps_trans _ _ _ _ K1 KB)|rewrite FB; reflexivity].
    + split; [exact (keeps_trans _ _ _ _ K1 KB)|rewrite FB; reflexivity].
  - destruct nb. { destruct (written =? 0); split; try apply keeps_refl; reflexivity. }
    pose proof (keeps_block_until k (pipe_writable_for q (write_need (runs_len data))) (-1) w L) as KB.
    pose proof (flat_block_until (pipe_writable_for q (write_need (runs_len data))) (-1) w) as FB.
    destruct (block_until _ (-1) w) as [w2|w2|w2|w2]; cbn [blocked_world wr_world] in *.
    + destruct (IH data written w2 (lib_at_keeps _ _ _ L KB)) as [K2 F2].
      split; [eapply keeps_trans; eassumption|rewrite F2, FB; reflexivity].
    + split; [exact KB|exact FB].
    + split; [exact KB|exact FB].
    + split; [exact KB|exact FB].
Qed.

Lemma st_frame p w w' : st p w -> keeps (w_cur w) w w' -> flat w' = flat w -> st p w'.
Proof.
  intros (W & F & E) K Fl. unfold flat in Fl. injection Fl as _ Fc _ Ff _ _ _ _ _ _.
  split; [eapply keeps_wf; eassumption|]. split; [congruence|].
  unfold curp. rewrite Fc. rewrite (keeps_get_proc _ _ _ K). exact E.
Qed.

Section Specs2.
  Context {QS : world -> Prop}.
  Ltac hb := eapply hoare_bind.
  Ltac hpre := apply hoare_pure; intros ->.

  Lemma h_log p c args sargs r outs b : hoare (st p) (log c args sargs r outs b) (fun _ w' => st p w') QS.
  Proof. intros w (W & F & E). cbn. split; [apply wf_with_trace, W|]. split; [exact F|exact E]. Qed.
  Lemma h_set_errno p e : hoare (st p) (set_errno e) (fun _ w' => st p w') QS.
  Proof.
    intros w (W & F & E). cbn.
    assert (W1 : wf (upd_cur (pr_with_errno e) w)) by (apply wf_upd_cur; [exact W|intros q; split; reflexivity]).
    split; [exact W1|]. split.
    - unfold upd_cur, upd_proc. destruct (w_procs w !! w_cur w); exact F.
    - rewrite curp_upd_cur by exact W. unfold noerr in *. destruct (curp w); cbn in *. exact E.
  Qed.

  Lemma h_write p fd data : hoare (st p) (sys_write fd data) (fun _ w' => st p w') QS.
  Proof.
    unfold sys_write. hb; [apply h_prelude|]. intros f. hpre.
    hb; [apply h_gets_fds|]. intros t. hpre.
    destruct (pr_fds p !! fd) as [d|].
    2:{ eapply hoare_conseq; [| | |apply h_fail]; [intros w S; exact S|intros r w (_ & S & _); exact S|intros ? X; exact X]. }
    destruct (f_obj d).
    - eapply hoare_conseq; [| | |apply h_fail]; [intros w S; exact S|intros r w (_ & S & _); exact S|intros ? X; exact X].
    - intros w S. cbv beta.
      pose proof (write_loop_frame (w_cur w) (Z.to_nat (runs_len data / pipe_atomic) + total_weight w * 2 + 8)%nat p0 (f_nonblock d) data 0 w
                    (wf_lib_at _ (proj1 S))) as [K Fl].
      destruct (write_loop _ p0 (f_nonblock d) data 0 w) as [k w1|e w1|w1|w1]; cbn [wr_world] in *; try exact I.
      + pose proof (st_frame p w w1 S K Fl) as S1.
        pose proof (h_log p CWrite [fd; runs_len data] [] k [] (w_time w1 - w_time w) w1 S1) as Hl.
        unfold bind. destruct (log _ _ _ _ _ _ w1); auto; try contradiction.
      + pose proof (st_frame p w w1 S K Fl) as S1.
        unfold bind. pose proof (h_set_errno p e w1 S1) as He. destruct (set_errno e w1) as [u w2|w2|w2|y w2]; auto; try contradiction.
        pose proof (h_log p CWrite [fd; runs_len data] [] (-1) [] (w_time w1 - w_time w) w2 He) as Hl.
        destruct (log _ _ _ _ _ _ w2); auto; try contradiction.
    - eapply hoare_conseq; [| | |apply h_done]; [intros w S; exact S|intros r w [_ S]; exact S|intros ? X; exact X].
    - eapply hoare_conseq; [| | |apply h_done]; [intros w S; exact S|intros r w [_ S]; exact S|intros ? X; exact X].
    - eapply hoare_conseq; [| | |apply h_done]; [intros w S; exact S|intros r w [_ S]; exact S|intros ? X; exact X].
  Qed.

  (* _exit: the process stops running library code; its image (if any) is what it was *)
  Lemma h_exit p code : (forall w', pr_image (curp w') = pr_image p -> QS w') ->
    hoare (st p) (sys__exit code) (fun _ _ => False) QS.
  Proof.
    intros HQ w S. unfold sys__exit.
    assert (Hpl : hoare (st p) (prelude ;> log CExit [code] [] 0 [] 0) (fun _ w' => st p w') QS).
    { hb; [apply h_prelude|]. intros f. hpre. apply h_log. }
    specialize (Hpl w S). destruct ((prelude ;> log CExit [code] [] 0 [] 0) w) as [u w1|w1|w1|y w1]; auto.
    apply HQ. destruct Hpl as (W1 & _ & E1).
    unfold kill_proc. rewrite <- (noerr_image _ _ E1).
    destruct W1 as [(q & Hq & _) _]. unfold curp, get_proc, upd_proc. rewrite Hq. cbn. rewrite lookup_insert. reflexivity.
  Qed.

  (* execvp: either it fails (-1, state unchanged up to errno) or the process stops running library
     code with an image taken from its record at that instant *)
  Lemma h_execvp p prog av :
    (forall w' im, pr_image (curp w') = Some im ->
                   im_fds im = map_to_list (exec_fds (pr_fds p)) -> im_mask im = pr_mask p ->
                   im_disp im = map_to_list (exec_disp (pr_disp p)) -> im_argv im = av ->
                   im_env im = pr_env p -> im_cwd im = pr_cwd p -> QS w') ->
    hoare (st p) (sys_execvp prog av) (fun r w' => r = -1 /\ st p w' /\ 0 < pr_errno (curp w')) QS.
  Proof.
    intros HQ. unfold sys_execvp. hb; [apply h_prelude|]. intros f. hpre.
    intros w S. cbv beta.
    destruct (exec_search w (exec_candidates (curp w) prog) false) as [[path script]|e] eqn:Es.
    2:{ pose proof (@h_fail QS p CExecvp [] (prog :: av) e w S) as Hf. destruct (fail _ _ _ _ w); auto; try contradiction.
        destruct Hf as (A & B & C). split; [exact A|]. split; [exact B|]. rewrite C.
        assert (Hpos : forall cands b x, exec_search w cands b = inr x -> 0 < x).
        { induction cands as [|c cs IHc]; intros b x Hx; cbn [exec_search] in Hx.
          - injection Hx as <-. destruct b; [unfold EACCES|unfold ENOENT]; lia.
          - destruct (fs_lookup c w) as [[]|]; try discriminate; eauto. }
        eapply Hpos. exact Es. }
    pose proof (h_log p CExecvp [] (prog :: av) 0 [] 0 w S) as Hl.
    destruct (log CExecvp [] (prog :: av) 0 [] 0 w) as [u w1|w1|w1|y w1]; auto; try contradiction.
    destruct S as (W & F & E). destruct Hl as (W1 & F1 & E1).
    eapply HQ.
    - rewrite curp_upd_cur by exact W1. cbn. reflexivity.
    - cbn. rewrite (noerr_fds _ _ E). reflexivity.
    - cbn. apply (noerr_mask _ _ E).
    - cbn. rewrite (noerr_disp _ _ E). reflexivity.
    - reflexivity.
    - cbn. apply (noerr_env _ _ E).
    - cbn. apply (noerr_cwd _ _ E).
  Qed.
End Specs2.
