(* Properties_C07.v — C07: stop sequences.  Theorems only. *)
From Verif Require Import Lib WorldSpec WorldSpec2 LibSpec LibSpec2 WaitSpec StopSpec TimeSpec.
From Coq Require Import Lia.
Local Open Scope Z_scope.

(* the loop is exactly "act, then wait(timeout), stop on anything but a time-out"; a no-op action
   is skipped and keeps the result of the previous step (unfolding equations of the model) *)
Theorem C07_loop_noop : forall a rest p r, stop_action_kind (sa_action a) = SK_noop ->
  stop_loop (a :: rest) p r = stop_loop rest p r.
Proof. intros a rest p r H. cbn [stop_loop]. rewrite H. reflexivity. Qed.
Print Assumptions C07_loop_noop.

Theorem C07_loop_invalid : forall a rest p r w, stop_action_kind (sa_action a) = SK_invalid ->
  stop_loop (a :: rest) p r w = Ret (REPROC_EINVAL, p) w.
Proof. intros a rest p r w H. cbn [stop_loop]. rewrite H. reflexivity. Qed.
Print Assumptions C07_loop_invalid.

Theorem C07_loop_terminate : forall a rest p r, stop_action_kind (sa_action a) = SK_terminate ->
  stop_loop (a :: rest) p r =
  (let* r0 := reproc_terminate p in
   if r0 <? 0 then ret (r0, p) else
   let* '(r1, p1) := reproc_wait p (sa_timeout a) in
   if negb (r1 =? REPROC_ETIMEDOUT) then ret (r1, p1) else stop_loop rest p1 r1).
Proof. intros a rest p r H. cbn [stop_loop]. rewrite H. reflexivity. Qed.
Print Assumptions C07_loop_terminate.

Theorem C07_loop_kill : forall a rest p r, stop_action_kind (sa_action a) = SK_kill ->
  stop_loop (a :: rest) p r =
  (let* r0 := reproc_kill p in
   if r0 <? 0 then ret (r0, p) else
   let* '(r1, p1) := reproc_wait p (sa_timeout a) in
   if negb (r1 =? REPROC_ETIMEDOUT) then ret (r1, p1) else stop_loop rest p1 r1).
Proof. intros a rest p r H. cbn [stop_loop]. rewrite H. reflexivity. Qed.
Print Assumptions C07_loop_kill.

Theorem C07_loop_wait : forall a rest p r, stop_action_kind (sa_action a) = SK_wait ->
  stop_loop (a :: rest) p r =
  (let* r0 := ret 0 in
   if r0 <? 0 then ret (r0, p) else
   let* '(r1, p1) := reproc_wait p (sa_timeout a) in
   if negb (r1 =? REPROC_ETIMEDOUT) then ret (r1, p1) else stop_loop rest p1 r1).
Proof. intros a rest p r H. cbn [stop_loop]. rewrite H. reflexivity. Qed.
Print Assumptions C07_loop_wait.

(* the action table regenerated from the switch in reproc_stop is the documented one *)
Theorem C07_action_table :
  stop_action_kind REPROC_STOP_NOOP = SK_noop /\ stop_action_kind REPROC_STOP_WAIT = SK_wait /\
  stop_action_kind REPROC_STOP_TERMINATE = SK_terminate /\ stop_action_kind REPROC_STOP_KILL = SK_kill /\
  (forall a, a <> REPROC_STOP_NOOP -> a <> REPROC_STOP_WAIT -> a <> REPROC_STOP_TERMINATE -> a <> REPROC_STOP_KILL ->
             stop_action_kind a = SK_invalid) /\
  stop_actions_order = [0; 1; 2].
Proof.
  repeat split; try reflexivity.
  intros a H0 H1 H2 H3. unfold stop_action_kind.
  destruct (Z.eqb_spec a REPROC_STOP_NOOP); [contradiction|]. destruct (Z.eqb_spec a REPROC_STOP_WAIT); [contradiction|].
  destruct (Z.eqb_spec a REPROC_STOP_TERMINATE); [contradiction|]. destruct (Z.eqb_spec a REPROC_STOP_KILL); [contradiction|].
  reflexivity.
Qed.
Print Assumptions C07_action_table.

(* truthful result: stop returns a non-negative value only as the cached exit status of the
   returned handle, i.e. only if the child has been reaped (C01_wait_footprint: a status is cached
   only after a successful waitpid) — for every world and every action triple *)
Theorem C07_status_only_if_reaped : forall p a, post (reproc_stop p a) status_result.
Proof. exact post_reproc_stop. Qed.
Print Assumptions C07_status_only_if_reaped.

(* "returns the child's exit status ONLY IF the child has exited and been reaped": for every
   well-formed world (any fault plan, latencies, child behaviour) and every action triple, a
   non-negative result of a stop on a running handle is the decoded wait status of the handle's
   own child, which at a moment of the call was a zombie with that status and is reaped
   afterwards (the reap of that pid is in the trace), and it is cached in the handle *)
Theorem C07_status_is_reaped_childs : forall p acts w r p' w',
  wf w -> h_status p = STATUS_IN_PROGRESS -> 0 < h_handle p -> h_handle p <> w_cur w ->
  reproc_stop p acts w = Ret (r, p') w' -> 0 <= r ->
  exists st wz,
    pr_state (get_proc (h_handle p) wz) = Zombie st
    /\ get_proc (h_handle p) w' = pr_with_state (Reaped st) (get_proc (h_handle p) wz)
    /\ (exists pre, w_trace wz = pre ++ w_trace w)
    /\ (exists post ev, w_trace w' = post ++ ev :: w_trace wz /\ e_call ev = CWaitpid /\ e_args ev = [h_handle p]
                        /\ e_ret ev = h_handle p /\ e_outs ev = [Z.of_N st])
    /\ r = parse_status (Z.of_N st)
    /\ h_status p' = r.
Proof. exact reproc_stop_exact. Qed.
Print Assumptions C07_status_is_reaped_childs.

(* the same for every action list the loop can be given *)
Theorem C07_loop_status_is_reaped_childs : forall acts p r0 w r p' w',
  wf w -> h_status p = STATUS_IN_PROGRESS -> 0 < h_handle p -> h_handle p <> w_cur w -> r0 < 0 ->
  stop_loop acts p r0 w = Ret (r, p') w' -> 0 <= r -> wait_exact p w r p' w'.
Proof. exact stop_loop_exact. Qed.
Print Assumptions C07_loop_status_is_reaped_childs.

(* on an already reaped child a stop whose first effective action is valid returns the status at
   once and sends nothing *)
Theorem C07_already_exited : forall acts p r w, 0 <= h_status p ->
  (exists a rest pre, acts = pre ++ a :: rest /\ Forall (fun x => stop_action_kind (sa_action x) = SK_noop) pre
                      /\ stop_action_kind (sa_action a) <> SK_noop /\ stop_action_kind (sa_action a) <> SK_invalid) ->
  stop_loop acts p r w = Ret (h_status p, p) w.
Proof. exact stop_loop_cached. Qed.
Print Assumptions C07_already_exited.

(* the only signals a stop can send are SIGTERM / SIGKILL to the handle's own pid; a wait action
   sends nothing (its footprint has no kill) — see C06_stop_targets; here: footprint + handle frame *)
Theorem C07_footprint : forall p a, emitsR (reproc_stop p a) (api_ev p) (fun rp' => shrinks p (snd rp')).
Proof. exact emitsR_reproc_stop. Qed.
Print Assumptions C07_footprint.

(* an all-noop request means: wait until the deadline, then terminate and wait indefinitely *)
Theorem C07_all_noop_default : forall s,
  sa_action (st_first s) = REPROC_STOP_NOOP -> sa_action (st_second s) = REPROC_STOP_NOOP ->
  sa_action (st_third s) = REPROC_STOP_NOOP ->
  let s' := parse_stop_actions s in
  st_first s' = {| sa_action := REPROC_STOP_WAIT; sa_timeout := REPROC_DEADLINE |} /\
  st_second s' = {| sa_action := REPROC_STOP_TERMINATE; sa_timeout := REPROC_INFINITE |} /\
  sa_action (st_third s') = REPROC_STOP_NOOP.
Proof. exact parse_stop_default. Qed.
Print Assumptions C07_all_noop_default.
Theorem C07_explicit_kept : forall s,
  (sa_action (st_first s) <> REPROC_STOP_NOOP \/ sa_action (st_second s) <> REPROC_STOP_NOOP \/
   sa_action (st_third s) <> REPROC_STOP_NOOP) -> parse_stop_actions s = s.
Proof. exact parse_stop_other. Qed.
Print Assumptions C07_explicit_kept.

Example C07_ex : stop_action_kind 2 = SK_terminate /\ stop_action_kind 7 = SK_invalid.
Proof. split; reflexivity. Qed.

(* "waits up to that action's timeout": every poll a stop sequence makes -- any action triple, any
   world, schedule and fault plan -- is blocked between 0 and the time-out it was handed *)
Theorem C07_stop_polls_bounded : forall p a, emits (reproc_stop p a) pollok.
Proof. exact ok_reproc_stop. Qed.
Print Assumptions C07_stop_polls_bounded.
