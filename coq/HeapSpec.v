(* HeapSpec.v — C05, memory: process_start releases every block it allocates, on every return
   path and for EVERY fault plan (allocation failures at any point included): the set of live
   blocks of the caller's heap after the call is exactly the set before it. *)
From Verif Require Import Lib WorldSpec WorldSpec2 LibSpec WaitSpec ParentSpec StartSpec StopSpec.
From Coq Require Import Lia.
Local Open Scope Z_scope.

(* ================= 1. calls that do not touch the heap ledger ================= *)
(* [nm = true]: the statement is only claimed for a process other than the ledger's owner (the
   forked child: its allocations are made in its own copy of the heap) *)
Definition hrel (w w' : world) : Prop :=
  w_cur w' = w_cur w /\ w_main w' = w_main w /\ w_heap w' = w_heap w /\ w_next_blk w <= w_next_blk w'.
Lemma hrel_refl w : hrel w w.
Proof. repeat split; lia. Qed.
Lemma hrel_trans a b c : hrel a b -> hrel b c -> hrel a c.
Proof. intros (A1 & A2 & A3 & A4) (B1 & B2 & B3 & B4). repeat split; try congruence; lia. Qed.
Lemma hrel_flat w w' : flat w' = flat w -> hrel w w'.
Proof. unfold flat. intros H. injection H as _ Hc Hm _ _ _ Hh Hb _ _. repeat split; try assumption. lia. Qed.

Definition hk {A} (nm : bool) (m : MW A) : Prop :=
  forall w, (nm = true -> w_cur w <> w_main w) ->
    match m w with Ret _ w' | Stop w' => hrel w w' | _ => True end.

Lemma hk_ret {A} nm (a : A) : hk nm (ret a).
Proof. intros w _. cbn. apply hrel_refl. Qed.
Lemma hk_bind {A B} nm (m : MW A) (f : A -> MW B) : hk nm m -> (forall a, hk nm (f a)) -> hk nm (bind m f).
Proof.
  intros Hm Hf w Hn. unfold bind. specialize (Hm w Hn). destruct (m w) as [a w1|w1|w1|y w1]; auto.
  assert (Hn1 : nm = true -> w_cur w1 <> w_main w1) by (intros E; destruct Hm as (C & M & _); rewrite C, M; auto).
  specialize (Hf a w1 Hn1). destruct (f a w1); auto; eapply hrel_trans; eassumption.
Qed.
Lemma hk_gets {A} nm (f : world -> A) : hk nm (gets f).
Proof. intros w _. cbn. apply hrel_refl. Qed.
Lemma hk_get nm : hk nm get.
Proof. intros w _. cbn. apply hrel_refl. Qed.
Lemma hk_crash {A} nm y : hk nm (fun w => Crash (A := A) y w).
Proof. intros w _. exact I. Qed.
Lemma hk_hang {A} nm : hk nm (fun w => Hang (A := A) w).
Proof. intros w _. exact I. Qed.
Lemma hk_modify nm f : (forall w, hrel w (f w)) -> hk nm (modify f).
Proof. intros H w _. cbn. apply H. Qed.
Lemma hk_modify_cur nm f : hk nm (modify (upd_cur f)).
Proof. apply hk_modify. intros w. apply hrel_flat. unfold upd_cur. apply flat_upd_proc. Qed.
Lemma hk_log nm c a s r o b : hk nm (log c a s r o b).
Proof. apply hk_modify. intros w. repeat split; cbn; lia. Qed.
Lemma hk_prelude nm : hk nm prelude.
Proof.
  intros w _. unfold prelude. cbv zeta. destruct (advance_to _ _) as [w2|] eqn:E; [|exact I].
  eapply (hrel_trans _ (w_with_calls (w_calls w + 1) w)); [repeat split; cbn; lia|].
  apply hrel_flat. exact (flat_advance_to _ _ _ E).
Qed.
Lemma hk_set_errno nm e : hk nm (set_errno e).
Proof. apply hk_modify_cur. Qed.
Lemma hk_set_cur_fds nm t : hk nm (set_cur_fds t).
Proof. apply hk_modify_cur. Qed.
Lemma hk_fail nm c a s e : hk nm (fail c a s e).
Proof. unfold fail. apply hk_bind; [apply hk_set_errno|]. intros _. apply hk_bind; [apply hk_log|]. intros _. apply hk_ret. Qed.
Lemma hk_failb nm c a s e : hk nm (failb c a s e).
Proof.
  unfold failb, last_lat. apply hk_bind; [apply hk_gets|]. intros l. apply hk_bind; [apply hk_set_errno|]. intros _.
  apply hk_bind; [apply hk_log|]. intros _. apply hk_ret.
Qed.
Lemma hk_get_errno nm : hk nm get_errno.
Proof. apply hk_gets. Qed.
Lemma hk_done nm c a s r o : hk nm (done c a s r o).
Proof. unfold done. apply hk_bind; [apply hk_log|]. intros _. apply hk_ret. Qed.

Ltac hk_step :=
  lazymatch goal with
  | |- hk _ last_lat => apply hk_gets
  | |- hk _ (bind _ _) => apply hk_bind; [|intros ?]
  | |- hk _ (ret _) => apply hk_ret
  | |- hk _ prelude => apply hk_prelude
  | |- hk _ (fail _ _ _ _) => apply hk_fail
  | |- hk _ (failb _ _ _ _) => apply hk_failb
  | |- hk _ (done _ _ _ _ _) => apply hk_done
  | |- hk _ (log _ _ _ _ _ _) => apply hk_log
  | |- hk _ (gets _) => apply hk_gets
  | |- hk _ get => apply hk_get
  | |- hk _ get_errno => apply hk_gets
  | |- hk _ (set_errno _) => apply hk_set_errno
  | |- hk _ (set_cur_fds _) => apply hk_set_cur_fds
  | |- hk _ (modify (upd_cur _)) => apply hk_modify_cur
  | |- hk _ (match ?x with _ => _ end) => destruct x
  end.

Lemma hk_sys_close nm fd : hk nm (sys_close fd).
Proof. unfold sys_close. repeat hk_step. Qed.
Lemma hk_sys_dup2 nm a b : hk nm (sys_dup2 a b).
Proof. unfold sys_dup2. repeat hk_step. Qed.
Lemma hk_sys_dupfd nm fd m c : hk nm (sys_dupfd fd m c).
Proof. unfold sys_dupfd. repeat hk_step. Qed.
Lemma hk_sys_getfd nm fd : hk nm (sys_getfd fd).
Proof. unfold sys_getfd. repeat hk_step. Qed.
Lemma hk_sys_setfd nm fd c : hk nm (sys_setfd fd c).
Proof. unfold sys_setfd. repeat hk_step. Qed.
Lemma hk_sys_getfl nm fd : hk nm (sys_getfl fd).
Proof. unfold sys_getfl. repeat hk_step. Qed.
Lemma hk_sys_setfl nm fd v : hk nm (sys_setfl fd v).
Proof. unfold sys_setfl. repeat hk_step. Qed.
Lemma hk_sys_sigemptyset nm : hk nm sys_sigemptyset.
Proof. unfold sys_sigemptyset. repeat hk_step. Qed.
Lemma hk_sys_sigfillset nm : hk nm sys_sigfillset.
Proof. unfold sys_sigfillset. repeat hk_step. Qed.
Lemma hk_sys_sigaction nm s h : hk nm (sys_sigaction s h).
Proof. unfold sys_sigaction. repeat hk_step. Qed.
Lemma hk_sys_sigmask nm how ns : hk nm (sys_sigmask how ns).
Proof. unfold sys_sigmask. repeat hk_step. Qed.
Lemma hk_sys_getrlimit nm : hk nm sys_getrlimit.
Proof. unfold sys_getrlimit. repeat hk_step. Qed.
Lemma hk_sys_chdir nm d : hk nm (sys_chdir d).
Proof. unfold sys_chdir. repeat hk_step. Qed.
Lemma hk_set_environ nm e : hk nm (set_environ e).
Proof. unfold set_environ. repeat hk_step. Qed.
Lemma hk_sys_getcwd nm n : hk nm (sys_getcwd n).
Proof. unfold sys_getcwd. repeat hk_step. Qed.
Lemma hk_sys_fileno nm f : hk nm (sys_fileno f).
Proof. unfold sys_fileno. repeat hk_step. Qed.
Lemma hk_sys_clock nm : hk nm sys_clock.
Proof. unfold sys_clock. repeat hk_step. Qed.
Lemma hk_sys_pipe nm : hk nm sys_pipe.
Proof. unfold sys_pipe. repeat hk_step. apply hk_modify. intros w. repeat split; cbn; lia. Qed.

Lemma hrel_with_trace t w : hrel w (w_with_trace t w).
Proof. repeat split. apply Z.le_refl. Qed.
Lemma hrel_block ready tmo w : hrel w (blocked_world (block_until ready tmo w)).
Proof. apply hrel_flat, flat_block_until. Qed.

Lemma hk_sys_read nm fd n : hk nm (sys_read fd n).
Proof.
  unfold sys_read. apply hk_bind; [apply hk_prelude|]. intros [e|].
  { apply hk_bind; [apply hk_failb|]. intros _. apply hk_ret. }
  apply hk_bind; [apply hk_gets|]. intros t. destruct (t !! fd) as [d|].
  2:{ apply hk_bind; [apply hk_fail|]. intros _. apply hk_ret. }
  destruct (f_obj d) as [q|q|a|pa a|id a];
    try (apply hk_bind; [first [apply hk_fail|apply hk_done]|]; intros _; apply hk_ret).
  destruct (n <=? 0). { apply hk_bind; [apply hk_done|]. intros _. apply hk_ret. }
  apply hk_bind; [apply hk_get|]. intros w0.
  destruct (negb (pipe_readable q w0) && f_nonblock d). { apply hk_bind; [apply hk_fail|]. intros _. apply hk_ret. }
  intros w _. pose proof (hrel_block (pipe_readable q) (-1) w) as HB.
  destruct (block_until (pipe_readable q) (-1) w) as [w1|w1|w1|w1]; cbn [blocked_world] in HB; auto.
  destruct (pipe_take n (get_pipe q w1)) as [rs pp]. cbn. eapply hrel_trans; [exact HB|]. eapply hrel_trans; [|apply hrel_with_trace]. apply hrel_flat. reflexivity.
Qed.

Lemma hk_sys_write nm fd data : hk nm (sys_write fd data).
Proof.
  unfold sys_write. cbn zeta. apply hk_bind; [apply hk_prelude|]. intros [e|]; [apply hk_failb|].
  apply hk_bind; [apply hk_gets|]. intros t. destruct (t !! fd) as [d|]; [|apply hk_fail].
  destruct (f_obj d) as [q|q|a|pa a|id a]; try apply hk_fail; try apply hk_done.
  intros w Hn.
  assert (HW : forall fuel dt wr w0, hrel w0 (wr_world (write_loop fuel q (f_nonblock d) dt wr w0))).
  { induction fuel as [|f IH]; intros dt wr w0; cbn [write_loop wr_world]; [apply hrel_refl|].
    destruct (negb (has_reader q w0)). { destruct (wr =? 0); apply hrel_refl. }
    destruct (runs_len dt <=? 0); [apply hrel_refl|]. cbv zeta.
    destruct (write_need (runs_len dt) <=? pipe_free_cap (w_pipecap w0) (get_pipe q w0)).
    - destruct (take_runs _ dt) as [a0 rest]. set (w1 := put_runs q a0 w0).
      assert (H1 : hrel w0 w1) by (apply hrel_flat; reflexivity).
      destruct (f_nonblock d); [exact H1|]. destruct (runs_len dt - _ <=? 0); [exact H1|].
      match goal with |- context[block_until ?r ?t w1] => pose proof (hrel_block r t w1) as HB; destruct (block_until r t w1) as [w2|w2|w2|w2] end;
        cbn [blocked_world wr_world] in *; try exact (hrel_trans _ _ _ H1 HB).
      eapply hrel_trans; [exact H1|]. eapply hrel_trans; [exact HB|apply IH].
    - destruct (f_nonblock d). { destruct (wr =? 0); apply hrel_refl. }
      match goal with |- context[block_until ?r ?t w0] => pose proof (hrel_block r t w0) as HB; destruct (block_until r t w0) as [w2|w2|w2|w2] end;
        cbn [blocked_world wr_world] in *; try exact HB.
      eapply hrel_trans; [exact HB|apply IH]. }
  specialize (HW (Z.to_nat (runs_len data / pipe_atomic) + total_weight w * 2 + 8)%nat data 0 w).
  destruct (write_loop _ q (f_nonblock d) data 0 w) as [k w1|e w1|w1|w1]; cbn [wr_world] in HW; try exact I.
  - assert (H1 : hk false (log CWrite [fd; runs_len data] [] k [] (w_time w1 - w_time w);> ret k)) by (repeat hk_step).
    specialize (H1 w1 ltac:(discriminate)).
    destruct ((log CWrite [fd; runs_len data] [] k [] (w_time w1 - w_time w);> ret k) w1); auto; eapply hrel_trans; eassumption.
  - assert (H1 : hk false (set_errno e;> log CWrite [fd; runs_len data] [] (-1) [] (w_time w1 - w_time w);> ret (-1))) by (repeat hk_step).
    specialize (H1 w1 ltac:(discriminate)).
    destruct ((set_errno e;> log CWrite [fd; runs_len data] [] (-1) [] (w_time w1 - w_time w);> ret (-1)) w1); auto; eapply hrel_trans; eassumption.
Qed.

Lemma hk_sys_waitpid nm pid : hk nm (sys_waitpid pid).
Proof.
  unfold sys_waitpid. apply hk_bind; [apply hk_prelude|]. intros [e|].
  { apply hk_bind; [apply hk_failb|]. intros _. apply hk_ret. }
  assert (HF : hk nm (fail CWaitpid [pid] [] ECHILD;> ret (-1, 0))) by (apply hk_bind; [apply hk_fail|intros _; apply hk_ret]).
  intros w Hn. destruct (0 <? pid).
  - destruct (w_procs w !! pid) as [p|]; [|apply HF, Hn]. destruct (is_child_of (w_cur w) p); [|apply HF, Hn].
    match goal with |- context[block_until ?r ?t w] => pose proof (hrel_block r t w) as HB; destruct (block_until r t w) as [w1|w1|w1|w1] end;
      cbn [blocked_world] in HB; auto.
    destruct (pr_state (get_proc pid w1)) as [|st|st]; auto. cbn.
    eapply hrel_trans; [exact HB|]. eapply hrel_trans; [apply hrel_flat, flat_upd_proc|]. apply hrel_with_trace.
  - destruct (negb (has_children (w_cur w) w)); [apply HF, Hn|].
    match goal with |- context[block_until ?r ?t w] => pose proof (hrel_block r t w) as HB; destruct (block_until r t w) as [w1|w1|w1|w1] end;
      cbn [blocked_world] in HB; auto.
    destruct (zombie_children (w_cur w) w1) as [|[c st] rest]; auto. cbn.
    eapply hrel_trans; [exact HB|]. eapply hrel_trans; [apply hrel_flat, flat_upd_proc|]. apply hrel_with_trace.
Qed.

Lemma hk_sys_open nm path flags mode : hk nm (sys_open path flags mode).
Proof.
  unfold sys_open. apply hk_bind; [apply hk_prelude|]. intros [e|]; [apply hk_fail|].
  apply hk_bind; [apply hk_get|]. intros w0. cbv zeta.
  assert (Hmk : forall ob, hk nm (match fd_alloc (pr_fds (curp w0)) (pr_rlimit (curp w0)) with
                               | Some fd => set_cur_fds (<[fd := {| f_obj := ob; f_cloexec := has_bit flags O_CLOEXEC; f_nonblock := has_bit flags O_NONBLOCK |}]> (pr_fds (curp w0)));>
                                            done COpen [flags; mode] [path] fd []
                               | None => fail COpen [flags; mode] [path] EMFILE end)).
  { intros ob. destruct (fd_alloc _ _); [|apply hk_fail]. apply hk_bind; [apply hk_set_cur_fds|]. intros _. apply hk_done. }
  destruct (str_eqb _ dev_null); [apply Hmk|].
  destruct (fs_lookup _ w0) as [k1|].
  - destruct k1; try apply Hmk; try apply hk_fail. destruct (acc_of_flags flags); try apply hk_fail; apply Hmk.
  - destruct (has_bit flags O_CREAT); [|apply hk_fail].
    destruct (fs_lookup _ w0) as [k2|]; [|apply hk_fail]. destruct k2; try apply hk_fail.
    apply hk_bind; [|intros _; apply Hmk]. apply hk_modify. intros w. repeat split; cbn; lia.
Qed.

Lemma hk_sys_execvp nm prog argv : hk nm (sys_execvp prog argv).
Proof.
  unfold sys_execvp. apply hk_bind; [apply hk_prelude|]. intros [e|]; [apply hk_fail|].
  intros w Hn. destruct (exec_search w _ false) as [[path script]|e].
  - cbn. eapply hrel_trans; [apply hrel_with_trace|]. apply hrel_flat. unfold upd_cur. apply flat_upd_proc.
  - exact (hk_fail nm _ _ _ _ w Hn).
Qed.
Lemma hk_sys__exit nm code : hk nm (sys__exit code).
Proof.
  intros w Hn. unfold sys__exit.
  assert (H1 : hk nm (prelude;> log CExit [code] [] 0 [] 0)) by (repeat hk_step).
  specialize (H1 w Hn). destruct ((prelude;> log CExit [code] [] 0 [] 0) w) as [a w1|w1|w1|y w1]; auto.
  eapply hrel_trans; [exact H1|]. apply hrel_flat. apply flat_kill_proc.
Qed.

(* the heap calls, made by a process that does not own the ledger *)
Lemma hk_heap_alloc c args size : hk true (heap_alloc c args size).
Proof.
  unfold heap_alloc. apply hk_bind; [apply hk_prelude|]. intros [e|].
  { apply hk_bind; [apply hk_set_errno|]. intros _. apply hk_bind; [apply hk_log|]. intros _. apply hk_ret. }
  intros w Hn. specialize (Hn eq_refl). unfold bind at 1, gets. cbv beta iota.
  assert (Em : in_main w = false) by (unfold in_main; apply Z.eqb_neq; exact Hn).
  cbn. rewrite Em. repeat split; cbn; lia.
Qed.
Lemma hk_sys_free_nm id : hk true (sys_free id).
Proof.
  unfold sys_free. apply hk_bind; [apply hk_prelude|]. intros _. destruct (id =? 0); [apply hk_log|].
  intros w Hn. specialize (Hn eq_refl). unfold bind at 1, get. cbv beta iota.
  assert (Em : in_main w = false) by (unfold in_main; apply Z.eqb_neq; exact Hn).
  rewrite Em. cbn [negb]. apply (hk_log true _ _ _ _ _ _ w). intros _; exact Hn.
Qed.

(* ---- library functions that do not touch the ledger (generated from the kp proofs of ParentSpec) ---- *)
Lemma hk_mapM_ {A} nm (f : A -> MW unit) l : (forall a, hk nm (f a)) -> hk nm (mapM_ f l).
Proof. intros Hf. induction l as [|x l IH]; cbn [mapM_]; [apply hk_ret|]. apply hk_bind; [apply Hf|]. intros _. exact IH. Qed.
Lemma hk_handle_destroy nm h : hk nm (handle_destroy h).
Proof. unfold handle_destroy. destruct (h =? HANDLE_INVALID); [apply hk_ret|]. apply hk_bind; [apply hk_sys_close|]. intros _. apply hk_ret. Qed.
Lemma hk_pipe_destroy nm h : hk nm (pipe_destroy h).
Proof. apply hk_handle_destroy. Qed.
Lemma hk_signal_mask nm how ns : hk nm (signal_mask how ns).
Proof. unfold signal_mask. apply hk_bind; [apply hk_sys_sigmask|]. intros [e old]. apply hk_ret. Qed.
Lemma hk_get_max_fd nm : hk nm get_max_fd.
Proof.
  unfold get_max_fd. apply hk_bind; [apply hk_sys_getrlimit|]. intros [r soft].
  destruct (r <? 0); [apply hk_bind; [apply hk_get_errno|intros e; apply hk_ret]|].
  destruct ((soft <? 0) || (H_INT_MAX <? soft)); apply hk_ret.
Qed.
Lemma hk_reset_signals nm sigs : hk nm (reset_signals sigs).
Proof.
  induction sigs as [|s r IH]; cbn [reset_signals]; [apply hk_ret|].
  apply hk_bind; [apply hk_sys_sigaction|]. intros q. apply hk_bind; [apply hk_get_errno|]. intros e.
  destruct ((q <? 0) && negb (e =? EINVAL)); [apply hk_ret|exact IH].
Qed.
Lemma hk_close_one nm skip i : hk nm (close_one skip i).
Proof.
  unfold close_one. destruct (memZ i skip); [apply hk_ret|].
  apply hk_bind; [apply hk_sys_getfd|]. intros r. destruct (0 <=? r); [|apply hk_ret].
  apply hk_bind; [apply hk_handle_destroy|]. intros _. apply hk_ret.
Qed.
Lemma hk_handle_cloexec nm h en : hk nm (handle_cloexec h en).
Proof.
  unfold handle_cloexec. apply hk_bind; [apply hk_sys_getfd|]. intros r.
  destruct (r <? 0); [apply hk_bind; [apply hk_get_errno|intros e; apply hk_ret]|]. cbn zeta.
  apply hk_bind; [apply hk_sys_setfd|]. intros r2.
  destruct (r2 <? 0); [apply hk_bind; [apply hk_get_errno|intros e; apply hk_ret]|apply hk_ret].
Qed.
Lemma hk_child_move_low nm l n : forall acc, hk nm (child_move_low l n acc).
Proof.
  induction l as [|[fd i] r IH]; intros acc; cbn [child_move_low]; [apply hk_ret|].
  destruct (negb (fd =? i) && (0 <=? fd) && (fd <? n)); [|apply IH].
  apply hk_bind; [apply hk_sys_dupfd|]. intros q.
  destruct (q <? 0); [apply hk_bind; [apply hk_get_errno|intros e; apply hk_ret]|apply IH].
Qed.
Lemma hk_child_redirect nm l : hk nm (child_redirect l).
Proof.
  induction l as [|[fd i] r IH]; cbn [child_redirect]; [apply hk_ret|].
  apply hk_bind; [apply hk_sys_dup2|]. intros q.
  destruct (q <? 0); [apply hk_bind; [apply hk_get_errno|intros e; apply hk_ret]|].
  apply hk_bind; [destruct (negb (fd =? i)); apply hk_handle_cloexec|]. intros q2.
  destruct (q2 <? 0); [apply hk_ret|exact IH].
Qed.
Lemma hk_strv_free l : hk true (strv_free l).
Proof.
  unfold strv_free. destruct l as [[arr ss]|]; [|apply hk_sys_free_nm].
  apply hk_bind; [apply hk_mapM_; intros a; apply hk_sys_free_nm|]. intros _. apply hk_sys_free_nm.
Qed.
Lemma hk_child_fail pwr r : hk true (sys_write pwr [RLit (encode_int (- r))] ;> sys__exit 1).
Proof. apply hk_bind; [apply hk_sys_write|]. intros _. apply hk_sys__exit. Qed.
Lemma hk_start_child_part prd pwr argv pg env o kk : hk true kk -> hk true (start_child_part prd pwr argv pg env o kk).
Proof.
  intros Hk. unfold start_child_part. cbn zeta.
  apply hk_bind; [apply hk_child_move_low|]. intros [r red].
  destruct (r <? 0); [apply hk_child_fail|].
  apply hk_bind; [apply hk_child_redirect|]. intros r2.
  destruct (r2 <? 0); [apply hk_child_fail|].
  apply hk_bind; [apply hk_handle_cloexec|]. intros r3.
  destruct (r3 <? 0); [apply hk_child_fail|].
  apply hk_bind.
  { destruct (po_wd o) as [d|]; [|apply hk_ret]. apply hk_bind; [apply hk_sys_chdir|]. intros q.
    destruct (q <? 0); [apply hk_bind; [apply hk_get_errno|intros e; apply hk_ret]|apply hk_ret]. }
  intros r4. destruct (r4 <? 0); [apply hk_child_fail|].
  apply hk_bind; [apply hk_set_environ|]. intros _.
  apply hk_bind.
  { destruct argv as [av|]; [|apply hk_ret]. apply hk_bind; [apply hk_sys_execvp|]. intros q.
    destruct (q <? 0); [apply hk_bind; [apply hk_get_errno|intros e; apply hk_ret]|apply hk_ret]. }
  intros r5. destruct (r5 <? 0); [apply hk_child_fail|].
  apply hk_bind; [apply hk_pipe_destroy|]. intros _. apply hk_bind; [apply hk_pipe_destroy|]. intros _.
  apply hk_bind; [apply hk_sys_free_nm|]. intros _. apply hk_bind; [apply hk_strv_free|]. intros _. exact Hk.
Qed.
Lemma hk_fork_child_part prd pwr except kk : hk true kk -> hk true (fork_child_part prd pwr except kk).
Proof.
  intros Hk. unfold fork_child_part. cbn zeta.
  assert (Herr : forall r0 : Z, hk true (let* r := (let* e := get_errno in ret (- e)) in sys_write pwr [RLit (encode_int (- r))] ;> sys__exit 1)).
  { intros _. apply hk_bind; [apply hk_bind; [apply hk_get_errno|intros e; apply hk_ret]|]. intros r. apply hk_child_fail. }
  apply hk_bind; [apply hk_sys_sigemptyset|]. intros r.
  destruct (r <? 0); [apply (Herr 0)|].
  apply hk_bind; [apply hk_reset_signals|]. intros r1.
  destruct (r1 <? 0); [apply hk_child_fail|].
  apply hk_bind; [apply hk_sys_sigemptyset|]. intros r2.
  destruct (r2 <? 0); [apply (Herr 0)|].
  apply hk_bind; [apply hk_signal_mask|]. intros [r3 old].
  destruct (r3 <? 0); [apply hk_child_fail|].
  apply hk_bind; [apply hk_get_max_fd|]. intros r4.
  destruct (r4 <? 0); [apply hk_child_fail|].
  destruct (MAX_FD_LIMIT <? r4); [apply hk_child_fail|].
  apply hk_bind; [apply hk_mapM_; intros i; apply hk_close_one|]. intros _.
  apply hk_bind; [apply hk_pipe_destroy|]. intros _. apply hk_bind; [apply hk_pipe_destroy|]. intros _. exact Hk.
Qed.

(* fork made by the owner of the ledger: the child's allocations are its own business *)
Lemma sys_fork_heap child w r w' : wf w -> 0 <= w_cur w -> w_cur w = w_main w -> hk true child ->
  sys_fork child w = Ret r w' -> hrel w w'.
Proof.
  intros W Hpos Hm Hk E. unfold sys_fork in E.
  apply bind_inv in E as (par & wa & Eg & E). apply gets_inv in Eg as [-> ->].
  apply bind_inv in E as (c & w1 & Epre & E).
  apply fork_pre_inv in Epre as (f & w0 & Ep & Epre).
  pose proof (hk_prelude false w ltac:(discriminate)) as Hp. rewrite Ep in Hp.
  pose proof (prelude_spec w W) as Hs. rewrite Ep in Hs. destruct Hs as (W0 & C0 & _).
  destruct f as [e|].
  - destruct (fail_val CFork [] [] (Z.pos e) w0 W0) as (w1' & Ef & _).
    pose proof (hk_fail false CFork [] [] (Z.pos e) w0 ltac:(discriminate)) as Hf. rewrite Ef in Hf.
    rewrite Ef in Epre. injection Epre as <- <-.
    change (-1 <? 0) with true in E. cbv iota in E. apply ret_inv in E as [_ ->]. eapply hrel_trans; eassumption.
  - destruct Epre as [-> ->].
    assert (Hc : w_cur w0 < w_next_pid w0). { destruct W0 as [(q & Hq & _) Hf]. apply Hf. rewrite Hq. eauto. }
    destruct (Z.ltb_spec (w_next_pid w0) 0); [lia|]. cbv beta in E.
    set (wc := w_with_trace _ (fork_child_world w0)) in E.
    destruct Hp as (Hc0 & Hm0 & Hh0 & Hb0).
    assert (Hnm : w_cur wc <> w_main wc).
    { change (w_cur wc) with (w_next_pid w0). change (w_main wc) with (w_main w0). lia. }
    pose proof (Hk wc (fun _ => Hnm)) as H3.
    destruct (child wc) as [a w3|w3|w3|y w3]; try discriminate.
    unfold fork_post in E. rewrite run_log_ret in E. injection E as <- <-.
    destruct H3 as (_ & Hm3 & Hh3 & Hb3).
    change (w_main wc) with (w_main w0) in Hm3. change (w_heap wc) with (w_heap w0) in Hh3. change (w_next_blk wc) with (w_next_blk w0) in Hb3.
    repeat split.
    + cbn. congruence.
    + cbn. congruence.
    + cbn. lia.
Qed.

(* ================= 2. the blocks a call owns ================= *)
(* [L]: which blocks were live when the call began (fixed); [own]: the blocks the call has
   allocated and not yet released.  The ledger's owner is the current process. *)
Definition drop (id : Z) (l : list Z) : list Z := filter (fun x => negb (x =? id)) l.
Lemma memZ_drop x id l : memZ x (drop id l) = memZ x l && negb (x =? id).
Proof.
  unfold memZ, drop. induction l as [|y l IH]; cbn [filter existsb]; [reflexivity|].
  destruct (Z.eqb_spec y id) as [->|Hn]; cbn [negb].
  - rewrite IH. destruct (Z.eqb_spec x id) as [->|Hx]; cbn [negb]; [rewrite !andb_false_r; reflexivity|rewrite !andb_true_r; reflexivity].
  - cbn [existsb]. rewrite IH. destruct (Z.eqb_spec x y) as [->|Hxy]; cbn [orb]; [|reflexivity].
    destruct (Z.eqb_spec y id); [contradiction|reflexivity].
Qed.
Lemma NoDup_drop id l : NoDup l -> NoDup (drop id l).
Proof. apply NoDup_filter. Qed.
Lemma memZ_In x l : memZ x l = true <-> In x l.
Proof.
  unfold memZ. rewrite existsb_exists. split.
  - intros (y & Hy & E). apply Z.eqb_eq in E. subst. exact Hy.
  - intros H. exists x. split; [exact H|apply Z.eqb_refl].
Qed.

Definition hq (L : Z -> bool) (own : list Z) (w : world) : Prop :=
  w_cur w = w_main w /\ 0 < w_next_blk w /\
  (forall id, heap_live id w = L id || memZ id own) /\
  (forall id, memZ id own = true -> L id = false /\ 0 < id < w_next_blk w) /\
  NoDup own /\
  (forall id, w_next_blk w <= id -> L id = false).

Lemma hq_hrel L own w w' : hq L own w -> hrel w w' -> hq L own w'.
Proof.
  intros (Hm & Hb & Hl & Ho & Hn & Hf) (C & M & H & B). unfold hq, heap_live. rewrite C, M, H.
  split; [exact Hm|]. split; [lia|]. split; [exact Hl|]. split.
  - intros id Hi. destruct (Ho id Hi). split; [assumption|lia].
  - split; [exact Hn|]. intros id Hi. apply Hf. lia.
Qed.
Lemma hq_same L own own' w : hq L own w -> (forall x, memZ x own' = memZ x own) -> NoDup own' -> hq L own' w.
Proof.
  intros (Hm & Hb & Hl & Ho & Hn & Hf) Hs Hn'. split; [exact Hm|]. split; [exact Hb|].
  split; [intros id; rewrite Hs; apply Hl|]. split; [intros id; rewrite Hs; apply Ho|]. split; assumption.
Qed.
Lemma H_neutral {A} (m : MW A) L own w a w' : hk false m -> hq L own w -> m w = Ret a w' -> hq L own w'.
Proof. intros Hk Hq E. specialize (Hk w ltac:(discriminate)). rewrite E in Hk. eapply hq_hrel; eassumption. Qed.

Lemma heap_live_with_trace id t w : heap_live id (w_with_trace t w) = heap_live id w.
Proof. reflexivity. Qed.

Lemma H_alloc c a sz L own w id w' : hq L own w -> heap_alloc c a sz w = Ret id w' ->
  (id = 0 /\ hq L own w') \/ (id <> 0 /\ hq L (id :: own) w').
Proof.
  intros Hq E. unfold heap_alloc in E. apply bind_inv in E as (f & w0 & Ep & E).
  pose proof (H_neutral _ _ _ _ _ _ (hk_prelude false) Hq Ep) as H0.
  destruct f as [e|].
  - rewrite run_seterr_log_ret in E. injection E as <- <-. left. split; [reflexivity|].
    eapply hq_hrel; [exact H0|]. eapply hrel_trans; [|apply hrel_with_trace]. apply hrel_flat. unfold upd_cur. apply flat_upd_proc.
  - apply bind_inv in E as (id0 & w0' & Eg & E). apply gets_inv in Eg as [-> ->].
    destruct H0 as (Hm & Hb & Hl & Ho & Hn & Hf).
    assert (Em : in_main w0 = true) by (unfold in_main; apply Z.eqb_eq; exact Hm).
    set (f := fun w1 : world => if in_main w1 then w_with_heap (<[w_next_blk w0 := (true, sz)]> (w_heap w1)) (w_next_blk w0 + 1) w1
                                else w_with_heap (w_heap w1) (w_next_blk w0 + 1) w1) in E.
    change ((modify f;> log c a [] (w_next_blk w0) [] 0;> ret (w_next_blk w0)) w0)
      with (Ret (A := Z) (w_next_blk w0) (w_with_trace (mkev c a [] (w_next_blk w0) [] 0 (f w0) :: w_trace (f w0)) (f w0))) in E.
    injection E as <- <-. right. split; [lia|].
    unfold f. rewrite Em. set (id := w_next_blk w0).
    assert (Hfresh : L id = false) by (apply Hf; unfold id; lia).
    assert (Hnot : memZ id own = false).
    { destruct (memZ id own) eqn:X; [|reflexivity]. destruct (Ho id X) as [_ Hr]. unfold id in Hr. lia. }
    unfold hq. cbn [w_cur w_main w_next_blk w_with_trace w_with_heap].
    split; [exact Hm|]. split; [lia|]. split.
    + intros x. unfold heap_live. cbn [w_heap w_with_trace w_with_heap]. cbn [memZ existsb]. fold (memZ x own).
      destruct (Z.eqb_spec x id) as [->|Hx].
      * rewrite lookup_insert. rewrite Hfresh. reflexivity.
      * rewrite lookup_insert_ne by congruence. cbn [orb]. apply Hl.
    + split.
      * intros x Hx. cbn [memZ existsb] in Hx. fold (memZ x own) in Hx. destruct (Z.eqb_spec x id) as [Hxe|Hne].
        -- rewrite Hxe. split; [exact Hfresh|unfold id; lia].
        -- cbn [orb] in Hx. destruct (Ho x Hx). split; [assumption|unfold id; lia].
      * split.
        -- constructor; [|exact Hn]. intros Hin. apply memZ_In in Hin. congruence.
        -- intros x Hx. apply Hf. unfold id in Hx. lia.
Qed.

Lemma H_free L own w id u w' : hq L own w -> id = 0 \/ In id own -> sys_free id w = Ret u w' -> hq L (drop id own) w'.
Proof.
  intros Hq Hid E. unfold sys_free in E. apply bind_inv in E as (f & w0 & Ep & E).
  pose proof (H_neutral _ _ _ _ _ _ (hk_prelude false) Hq Ep) as H0.
  assert (Hdrop0 : id = 0 -> forall x, memZ x (drop id own) = memZ x own).
  { intros -> x. rewrite memZ_drop. destruct (Z.eqb_spec x 0) as [->|]; [|apply andb_true_r].
    destruct H0 as (_ & _ & _ & Ho & _). destruct (memZ 0 own) eqn:X; [destruct (Ho 0 X); lia|reflexivity]. }
  destruct (Z.eqb_spec id 0) as [Hz|Hnz].
  - assert (hq L own w') by (eapply H_neutral; [apply (hk_log false)|exact H0|exact E]).
    eapply hq_same; [eassumption|apply Hdrop0, Hz|apply NoDup_drop; apply H].
  - destruct Hid as [Hz|Hin]; [contradiction|].
    apply bind_inv in E as (wg & w0' & Eg & E). apply get_inv in Eg as [-> ->].
    pose proof H0 as (Hm & Hb & Hl & Ho & Hn & Hf).
    assert (Em : in_main w0 = true) by (unfold in_main; apply Z.eqb_eq; exact Hm).
    rewrite Em in E. cbn [negb] in E.
    assert (Hmem : memZ id own = true) by (apply memZ_In; exact Hin).
    assert (Hlive : heap_live id w0 = true) by (rewrite Hl, Hmem; apply orb_true_r).
    rewrite Hlive in E.
    change ((modify (fun w1 : world => w_with_heap (<[id := (false, 0)]> (w_heap w1)) (w_next_blk w1) w1);> log CFree [id] [] 0 [] 0) w0)
      with (Ret tt (w_with_trace (mkev CFree [id] [] 0 [] 0 (w_with_heap (<[id := (false, 0)]> (w_heap w0)) (w_next_blk w0) w0) :: w_trace w0) (w_with_heap (<[id := (false, 0)]> (w_heap w0)) (w_next_blk w0) w0))) in E.
    injection E as _ <-.
    unfold hq. cbn [w_cur w_main w_next_blk w_with_trace w_with_heap].
    split; [exact Hm|]. split; [exact Hb|]. split.
    + intros x. unfold heap_live. cbn [w_heap w_with_trace w_with_heap]. rewrite memZ_drop.
      destruct (Z.eqb_spec x id) as [Hxe|Hx].
      * rewrite Hxe, lookup_insert. cbn [negb]. rewrite andb_false_r. destruct (Ho id Hmem) as [-> _]. reflexivity.
      * rewrite lookup_insert_ne by congruence. cbn [negb]. rewrite andb_true_r. apply Hl.
    + split.
      * intros x Hx. rewrite memZ_drop in Hx. apply andb_true_iff in Hx. destruct Hx as [Hx _]. apply Ho, Hx.
      * split; [apply NoDup_drop, Hn|exact Hf].
Qed.

Lemma H_realloc L own w id n nb w' : hq L own w -> In id own -> sys_realloc id n w = Ret nb w' ->
  (nb = 0 /\ hq L own w') \/ (nb <> 0 /\ hq L (nb :: drop id own) w').
Proof.
  intros Hq Hin E. unfold sys_realloc in E. apply bind_inv in E as (f & w0 & Ep & E).
  pose proof (H_neutral _ _ _ _ _ _ (hk_prelude false) Hq Ep) as H0.
  destruct f as [e|].
  - rewrite run_seterr_log_ret in E. injection E as <- <-. left. split; [reflexivity|].
    eapply hq_hrel; [exact H0|]. eapply hrel_trans; [|apply hrel_with_trace]. apply hrel_flat. unfold upd_cur. apply flat_upd_proc.
  - apply bind_inv in E as (wg & w0' & Eg & E). apply get_inv in Eg as [-> ->].
    pose proof H0 as (Hm & Hb & Hl & Ho & Hn & Hf).
    assert (Em : in_main w0 = true) by (unfold in_main; apply Z.eqb_eq; exact Hm).
    rewrite Em in E. cbn [negb] in E.
    assert (Hmem : memZ id own = true) by (apply memZ_In; exact Hin).
    assert (Hlive : heap_live id w0 = true) by (rewrite Hl, Hmem; apply orb_true_r).
    rewrite Hlive, orb_true_r in E. cbv zeta in E.
    destruct (Ho id Hmem) as [HLid Hidr].
    assert (Hid0 : id =? 0 = false) by (apply Z.eqb_neq; lia). rewrite Hid0 in E.
    set (nid := w_next_blk w0) in *.
    set (h := <[nid := (true, n)]> (<[id := (false, 0)]> (w_heap w0))) in *.
    change ((modify (fun w1 : world => w_with_heap (<[nid := (true, n)]> (<[id := (false, 0)]> (w_heap w1))) (nid + 1) w1);> log CRealloc [id; n] [] nid [] 0;> ret nid) w0)
      with (Ret (A := Z) nid (w_with_trace (mkev CRealloc [id; n] [] nid [] 0 (w_with_heap h (nid + 1) w0) :: w_trace w0) (w_with_heap h (nid + 1) w0))) in E.
    injection E as <- <-. right. split; [unfold nid; lia|].
    assert (Hfresh : L nid = false) by (apply Hf; unfold nid; lia).
    assert (Hne : nid <> id) by (unfold nid; lia).
    unfold hq. cbn [w_cur w_main w_next_blk w_with_trace w_with_heap].
    split; [exact Hm|]. split; [lia|]. split.
    + intros x. unfold heap_live, h. cbn [w_heap w_with_trace w_with_heap]. cbn [memZ existsb]. fold (memZ x (drop id own)). rewrite memZ_drop.
      destruct (Z.eqb_spec x nid) as [Hxe|Hx].
      * rewrite Hxe, lookup_insert, Hfresh. reflexivity.
      * rewrite lookup_insert_ne by congruence. cbn [orb].
        destruct (Z.eqb_spec x id) as [Hxi|Hxi].
        -- rewrite Hxi, lookup_insert, HLid. cbn [negb]. rewrite andb_false_r. reflexivity.
        -- rewrite lookup_insert_ne by congruence. cbn [negb]. rewrite andb_true_r. apply Hl.
    + split.
      * intros x Hx. cbn [memZ existsb] in Hx. fold (memZ x (drop id own)) in Hx. destruct (Z.eqb_spec x nid) as [Hxe|Hxn].
        -- rewrite Hxe. split; [exact Hfresh|unfold nid; lia].
        -- cbn [orb] in Hx. rewrite memZ_drop in Hx. apply andb_true_iff in Hx. destruct Hx as [Hx _].
           destruct (Ho x Hx). split; [assumption|unfold nid in *; lia].
      * split.
        -- constructor; [|apply NoDup_drop, Hn]. intros Hi. apply memZ_In in Hi. rewrite memZ_drop in Hi.
           apply andb_true_iff in Hi. destruct Hi as [Hi _]. destruct (Ho nid Hi) as [_ Hr]. unfold nid in Hr. lia.
        -- intros x Hx. apply Hf. unfold nid in Hx. lia.
Qed.

(* free of a block that was not live at the start: released if owned, a recorded no-op otherwise *)
Lemma H_free' L own w id u w' : hq L own w -> id = 0 \/ L id = false -> sys_free id w = Ret u w' -> hq L (drop id own) w'.
Proof.
  intros Hq Hid E. destruct (memZ id own) eqn:Hmem.
  - eapply H_free; [exact Hq|right; apply memZ_In; exact Hmem|exact E].
  - destruct Hid as [Hz|HL]; [eapply H_free; [exact Hq|left; exact Hz|exact E]|].
    assert (Hsame : forall x, memZ x (drop id own) = memZ x own).
    { intros x. rewrite memZ_drop. destruct (Z.eqb_spec x id) as [->|]; [rewrite Hmem; reflexivity|apply andb_true_r]. }
    eapply hq_same; [|exact Hsame|apply NoDup_drop; apply Hq].
    unfold sys_free in E. apply bind_inv in E as (f & w0 & Ep & E).
    pose proof (H_neutral _ _ _ _ _ _ (hk_prelude false) Hq Ep) as H0.
    destruct (id =? 0). { eapply H_neutral; [apply (hk_log false)|exact H0|exact E]. }
    apply bind_inv in E as (wg & w0' & Eg & E). apply get_inv in Eg as [-> ->].
    pose proof H0 as (Hm & _ & Hl & _).
    assert (Em : in_main w0 = true) by (unfold in_main; apply Z.eqb_eq; exact Hm).
    rewrite Em in E. cbn [negb] in E.
    assert (Hlive : heap_live id w0 = false) by (rewrite Hl, HL, Hmem; reflexivity).
    rewrite Hlive in E. eapply H_neutral; [apply (hk_log false)|exact H0|exact E].
Qed.

Definition dropl (ids : list Z) (own : list Z) : list Z := fold_left (fun o i => drop i o) ids own.
Lemma memZ_dropl x ids : forall own, memZ x (dropl ids own) = memZ x own && negb (memZ x ids).
Proof.
  induction ids as [|i ids IH]; intros own; cbn [dropl fold_left]; [cbn; rewrite andb_true_r; reflexivity|].
  change (fold_left (fun o i0 => drop i0 o) ids (drop i own)) with (dropl ids (drop i own)).
  rewrite IH, memZ_drop. cbn [memZ existsb]. fold (memZ x ids).
  destruct (memZ x own), (x =? i), (memZ x ids); reflexivity.
Qed.
Lemma NoDup_dropl ids : forall own, NoDup own -> NoDup (dropl ids own).
Proof. induction ids as [|i ids IH]; intros own H; cbn [dropl fold_left]; [exact H|]. apply IH, NoDup_drop, H. Qed.

Lemma H_free_list {B} L (g : B -> Z) l : forall own w u w', hq L own w -> (forall b, In b l -> L (g b) = false) ->
  mapM_ (fun b => sys_free (g b)) l w = Ret u w' -> hq L (dropl (map g l) own) w'.
Proof.
  induction l as [|b l IH]; intros own w u w' Hq HL E; cbn [mapM_ map dropl fold_left] in *.
  - apply ret_inv in E as [_ ->]. exact Hq.
  - apply bind_inv in E as (u1 & w1 & E1 & E).
    pose proof (H_free' _ _ _ _ _ _ Hq (or_intror (HL b (or_introl eq_refl))) E1) as H1.
    apply (IH _ _ _ _ H1 (fun b' Hb => HL b' (or_intror Hb)) E).
Qed.

(* owned blocks were not live at the start *)
Lemma hq_owned_fresh L own w id : hq L own w -> In id own -> L id = false.
Proof. intros (_ & _ & _ & Ho & _) Hin. apply Ho, memZ_In, Hin. Qed.

(* ---- strv.c ---- *)
From Coq Require Import Permutation.

Lemma hq_perm L own own' w : hq L own w -> Permutation own own' -> hq L own' w.
Proof.
  intros Hq P. eapply hq_same; [exact Hq| |eapply Permutation_NoDup; [exact P|apply Hq]].
  intros x. destruct (memZ x own') eqn:A; destruct (memZ x own) eqn:B; try reflexivity.
  - apply memZ_In in A. apply (Permutation_in _ (Permutation_sym P)) in A. apply memZ_In in A. congruence.
  - apply memZ_In in B. apply (Permutation_in _ P) in B. apply memZ_In in B. congruence.
Qed.

Lemma NoDup_app_tail {A} (l k : list A) : List.NoDup (l ++ k) -> List.NoDup k.
Proof. induction l as [|a l IH]; cbn [app]; [auto|]. intros H. inversion H; subst. auto. Qed.
Lemma memZ_perm x l l' : Permutation l l' -> memZ x l = memZ x l'.
Proof.
  intros P. destruct (memZ x l) eqn:A; destruct (memZ x l') eqn:B; try reflexivity.
  - apply memZ_In in A. apply (Permutation_in _ P) in A. apply memZ_In in A. congruence.
  - apply memZ_In in B. apply (Permutation_in _ (Permutation_sym P)) in B. apply memZ_In in B. congruence.
Qed.
Lemma dropl_all_front ids base : NoDup (ids ++ base) -> forall x, memZ x (dropl ids (ids ++ base)) = memZ x base.
Proof.
  intros Hn x. rewrite memZ_dropl.
  assert (Hx : memZ x (ids ++ base) = memZ x ids || memZ x base) by (unfold memZ; apply existsb_app).
  rewrite Hx. destruct (memZ x ids) eqn:A; cbn [orb negb andb]; [|apply andb_true_r].
  destruct (memZ x base) eqn:B; [|reflexivity].
  apply memZ_In in A. apply memZ_In in B. exfalso. revert A B. clear -Hn. induction ids as [|i ids IH]; [intros []|].
  cbn [app] in Hn. inversion Hn as [|? ? Hni Hn']; subst. intros [->|A] B; [apply Hni, in_or_app; right; exact B|exact (IH Hn' A B)].
Qed.

Lemma O_dup_all L base l : forall acc w r w',
  hq L (map fst acc ++ base) w -> dup_all l acc w = Ret r w' ->
  match r with Some res => hq L (map fst res ++ base) w' | None => hq L base w' end.
Proof.
  induction l as [|s0 rest IH]; intros acc w r w' Hq E; cbn [dup_all] in E.
  - apply ret_inv in E as [-> ->]. eapply hq_perm; [exact Hq|]. apply Permutation_app_tail. rewrite map_rev. apply Permutation_rev.
  - apply bind_inv in E as (b & w1 & Eb & E).
    destruct (H_alloc _ _ _ _ _ _ _ _ Hq Eb) as [[-> H1]|[Hnz H1]].
    + change (0 =? 0) with true in E. cbv iota in E.
      apply bind_inv in E as (u & w2 & Ef & E). apply ret_inv in E as [-> ->].
      assert (HLs : forall bs, In bs (rev acc) -> L (fst bs) = false).
      { intros bs Hin. eapply hq_owned_fresh; [exact H1|]. apply in_or_app; left. apply in_map, in_rev. exact Hin. }
      pose proof (H_free_list L fst (rev acc) _ _ _ _ H1 HLs Ef) as H2.
      eapply hq_same; [exact H2| |].
      * intros x. rewrite memZ_dropl.
        assert (Hx : memZ x (map fst acc ++ base) = memZ x (map fst acc) || memZ x base) by (unfold memZ; apply existsb_app).
        assert (Hr : memZ x (map fst (rev acc)) = memZ x (map fst acc)).
        { rewrite map_rev. apply memZ_perm, Permutation_sym, Permutation_rev. }
        rewrite Hx, Hr. pose proof (dropl_all_front (map fst acc) base ltac:(apply H1) x) as Hd.
        rewrite memZ_dropl, Hx in Hd. exact (eq_sym Hd).
      * destruct H1 as (_ & _ & _ & _ & Hn & _). exact (NoDup_app_tail _ _ Hn).
    + destruct (Z.eqb_spec b 0); [contradiction|]. apply (IH ((b, s0) :: acc) _ _ _ H1 E).
Qed.

Lemma O_strv_concat L base a b w r w' : hq L base w -> strv_concat a b w = Ret r w' ->
  match r with Some (arr, res) => hq L (map fst res ++ arr :: base) w' | None => hq L base w' end.
Proof.
  intros Hq E. unfold strv_concat in E. cbv zeta in E.
  apply bind_inv in E as (arr & w1 & Ea & E).
  destruct (H_alloc _ _ _ _ _ _ _ _ Hq Ea) as [[-> H1]|[Hnz H1]].
  - change (0 =? 0) with true in E. cbv iota in E.
    apply bind_inv in E as (u & w2 & Ef & E). apply ret_inv in E as [-> ->].
    pose proof (H_free' _ _ _ _ _ _ H1 (or_introl eq_refl) Ef) as H2.
    eapply hq_same; [exact H2| |apply H1]. intros x. symmetry. rewrite memZ_drop.
    destruct (Z.eqb_spec x 0) as [->|]; [|apply andb_true_r].
    destruct (memZ 0 base) eqn:X; [|reflexivity]. destruct H1 as (_ & _ & _ & Ho & _). destruct (Ho 0 X). lia.
  - destruct (Z.eqb_spec arr 0); [contradiction|].
    apply bind_inv in E as (d & w2 & Ed & E).
    pose proof (O_dup_all L (arr :: base) _ [] _ _ _ H1 Ed) as H2.
    destruct d as [res|].
    + apply ret_inv in E as [-> ->]. exact H2.
    + apply bind_inv in E as (u & w3 & Ef & E). apply ret_inv in E as [-> ->].
      pose proof (H_free _ _ _ _ _ _ H2 (or_intror (or_introl eq_refl)) Ef) as H3.
      eapply hq_same; [exact H3| |exact (NoDup_app_tail [arr] base ltac:(apply H2))].
      intros x. symmetry. rewrite memZ_drop. cbn [memZ existsb]. fold (memZ x base).
      destruct (Z.eqb_spec x arr) as [->|]; cbn [orb negb]; [|apply andb_true_r].
      rewrite andb_false_r. destruct (memZ arr base) eqn:X; [|reflexivity].
      exfalso. destruct H2 as (_ & _ & _ & _ & Hn & _). inversion Hn; subst. apply memZ_In in X. contradiction.
Qed.

Lemma O_strv_free L base env w u w' :
  match env with Some (arr, res) => hq L (map fst res ++ arr :: base) w | None => hq L base w end ->
  strv_free env w = Ret u w' -> hq L base w'.
Proof.
  intros Hq E. unfold strv_free in E. destruct env as [[arr res]|].
  - apply bind_inv in E as (u1 & w1 & E1 & E).
    assert (HLs : forall bs, In bs res -> L (fst bs) = false).
    { intros bs Hin. eapply hq_owned_fresh; [exact Hq|]. apply in_or_app; left. apply in_map. exact Hin. }
    pose proof (H_free_list L fst res _ _ _ _ Hq HLs E1) as H1.
    assert (H1' : hq L (arr :: base) w1).
    { eapply hq_same; [exact H1| |exact (NoDup_app_tail _ _ ltac:(apply Hq))]. intros x. symmetry.
      apply (dropl_all_front (map fst res) (arr :: base)). apply Hq. }
    pose proof (H_free _ _ _ _ _ _ H1' (or_intror (or_introl eq_refl)) E) as H2.
    eapply hq_same; [exact H2| |exact (NoDup_app_tail [arr] base ltac:(apply H1'))].
    intros x. symmetry. rewrite memZ_drop. cbn [memZ existsb]. fold (memZ x base).
    destruct (Z.eqb_spec x arr) as [->|]; cbn [orb negb]; [|apply andb_true_r].
    rewrite andb_false_r. destruct (memZ arr base) eqn:X; [|reflexivity].
    exfalso. destruct H1' as (_ & _ & _ & _ & Hn & _). inversion Hn; subst. apply memZ_In in X. contradiction.
  - pose proof (H_free' _ _ _ _ _ _ Hq (or_introl eq_refl) E) as H2.
    eapply hq_same; [exact H2| |apply Hq]. intros x. symmetry. rewrite memZ_drop.
    destruct (Z.eqb_spec x 0) as [->|]; [|apply andb_true_r].
    destruct (memZ 0 base) eqn:X; [|reflexivity]. destruct Hq as (_ & _ & _ & Ho & _). destruct (Ho 0 X). lia.
Qed.

(* ---- the block holding the program path ---- *)
Lemma drop_head id base : ~ In id base -> forall x, memZ x (drop id (id :: base)) = memZ x base.
Proof.
  intros Hn x. rewrite memZ_drop. cbn [memZ existsb]. fold (memZ x base).
  destruct (Z.eqb_spec x id) as [->|]; cbn [orb negb]; [|apply andb_true_r].
  rewrite andb_false_r. destruct (memZ id base) eqn:X; [apply memZ_In in X; contradiction|reflexivity].
Qed.
Lemma hq_head_notin L id base w : hq L (id :: base) w -> ~ In id base.
Proof. intros (_ & _ & _ & _ & Hn & _). inversion Hn; assumption. Qed.

Lemma O_prepend_loop L base fuel : forall blk cs ps w r w',
  hq L (blk :: base) w -> prepend_loop fuel blk cs ps w = Ret r w' ->
  match r with Some (b, _) => hq L (b :: base) w' | None => hq L base w' end.
Proof.
  induction fuel as [|f IH]; intros blk cs ps w r w' Hq E; cbn [prepend_loop] in E; [discriminate|].
  apply bind_inv in E as ([rc cwd] & w1 & E1 & E).
  pose proof (H_neutral _ _ _ _ _ _ (hk_sys_getcwd false _) Hq E1) as H1.
  destruct (rc =? 0). { apply ret_inv in E as [-> ->]. exact H1. }
  apply bind_inv in E as (e & w1' & Eg & E). apply gets_inv in Eg as [-> ->].
  assert (Hfree : forall b0 w2 u w3, hq L (b0 :: base) w2 -> sys_free b0 w2 = Ret u w3 -> hq L base w3).
  { intros b0 w2 u w3 H2 Ef. pose proof (H_free _ _ _ _ _ _ H2 (or_intror (or_introl eq_refl)) Ef) as H3.
    eapply hq_same; [exact H3|intros x; symmetry; apply drop_head, (hq_head_notin _ _ _ _ H2)|exact (NoDup_app_tail [b0] base ltac:(apply H2))]. }
  destruct (negb (_ =? ERANGE)).
  { apply bind_inv in E as (u & w2 & Ef & E). apply ret_inv in E as [-> ->]. exact (Hfree _ _ _ _ H1 Ef). }
  cbv zeta in E. apply bind_inv in E as (nb & w2 & Er & E).
  destruct (H_realloc _ _ _ _ _ _ _ H1 (or_introl eq_refl) Er) as [[-> H2]|[Hnz H2]].
  - change (0 =? 0) with true in E. cbv iota in E.
    apply bind_inv in E as (u & w3 & Ef & E). apply ret_inv in E as [-> ->]. exact (Hfree _ _ _ _ H2 Ef).
  - destruct (Z.eqb_spec nb 0); [contradiction|].
    assert (H2' : hq L (nb :: base) w2).
    { eapply hq_same; [exact H2| |].
      - intros x. cbn [memZ existsb]. fold (memZ x base). fold (memZ x (drop blk (blk :: base))).
        rewrite (drop_head blk base (hq_head_notin _ _ _ _ H1)). reflexivity.
      - destruct H2 as (_ & _ & _ & Ho & Hn & _). inversion Hn as [|? ? Hni Hn']; subst. constructor.
        + intros Hin. apply Hni. apply memZ_In. rewrite (drop_head blk base (hq_head_notin _ _ _ _ H1)). apply memZ_In. exact Hin.
        + exact (NoDup_app_tail [blk] base ltac:(apply H1)). }
    exact (IH _ _ _ _ _ _ H2' E).
Qed.

Lemma O_path_prepend_cwd L base path w r w' : hq L base w -> path_prepend_cwd path w = Ret r w' ->
  match r with Some (b, _) => hq L (b :: base) w' | None => hq L base w' end.
Proof.
  intros Hq E. unfold path_prepend_cwd in E. cbv zeta in E.
  apply bind_inv in E as (blk & w1 & Ea & E).
  destruct (H_alloc _ _ _ _ _ _ _ _ Hq Ea) as [[-> H1]|[Hnz H1]].
  - change (0 =? 0) with true in E. cbv iota in E. apply ret_inv in E as [-> ->]. exact H1.
  - destruct (Z.eqb_spec blk 0); [contradiction|].
    apply bind_inv in E as (cl & w1' & Eg & E). apply gets_inv in Eg as [-> ->].
    apply bind_inv in E as (rl & w2 & El & E).
    pose proof (O_prepend_loop L base _ _ _ _ _ _ _ H1 El) as H2.
    destruct rl as [[b cwd]|]; apply ret_inv in E as [-> ->]; exact H2.
Qed.

(* ---- process_fork / process_start ---- *)
Lemma hk_pipe_init nm : hk nm pipe_init.
Proof.
  unfold pipe_init. apply hk_bind; [apply hk_sys_pipe|]. intros [[r a] b].
  destruct (r <? 0).
  { apply hk_bind; [apply hk_get_errno|]. intros e. apply hk_bind; [apply hk_pipe_destroy|]. intros _.
    apply hk_bind; [apply hk_pipe_destroy|]. intros _. apply hk_ret. }
  apply hk_bind; [apply hk_handle_cloexec|]. intros r1.
  destruct (r1 <? 0).
  { apply hk_bind; [apply hk_pipe_destroy|]. intros _. apply hk_bind; [apply hk_pipe_destroy|]. intros _. apply hk_ret. }
  apply hk_bind; [apply hk_handle_cloexec|]. intros r2.
  destruct (r2 <? 0).
  { apply hk_bind; [apply hk_pipe_destroy|]. intros _. apply hk_bind; [apply hk_pipe_destroy|]. intros _. apply hk_ret. }
  apply hk_bind; [apply hk_pipe_destroy|]. intros _. apply hk_bind; [apply hk_pipe_destroy|]. intros _. apply hk_ret.
Qed.
Lemma hk_read_retry nm fuel fd : hk nm (read_retry fuel fd).
Proof.
  induction fuel as [|f IH]; cbn [read_retry]; [apply hk_crash|].
  apply hk_bind; [apply hk_sys_read|]. intros [q rs]. destruct (q <? 0); [|apply hk_ret].
  apply hk_bind; [apply hk_get_errno|]. intros e. destruct (e =? EINTR); [exact IH|apply hk_ret].
Qed.
Lemma hk_read_errpipe nm fd : hk nm (read_errpipe fd).
Proof. unfold read_errpipe. apply hk_bind; [apply hk_gets|]. intros nf. apply hk_read_retry. Qed.
Lemma hk_waitpid_retry nm fuel pid : hk nm (waitpid_retry fuel pid).
Proof.
  induction fuel as [|f IH]; cbn [waitpid_retry]; [apply hk_crash|].
  apply hk_bind; [apply hk_sys_waitpid|]. intros [r st]. destruct (r <? 0); [|apply hk_ret].
  apply hk_bind; [apply hk_get_errno|]. intros e. destruct (e =? EINTR); [exact IH|apply hk_ret].
Qed.
Lemma hk_waitpid_child nm pid : hk nm (waitpid_child pid).
Proof. unfold waitpid_child. apply hk_bind; [apply hk_gets|]. intros nf. apply hk_waitpid_retry. Qed.

Lemma process_fork_heap L own except ck w r w' :
  wf w -> 0 <= w_cur w -> kp (w_cur w) ck -> hk true ck -> hq L own w ->
  process_fork except ck w = Ret r w' -> hq L own w'.
Proof.
  intros W Hpos Hkp Hkh Hq E0. unfold process_fork in E0.
  apply bind_inv in E0 as (r0 & w1 & E1 & E0).
  pose proof (pc_run _ _ _ _ pc_sys_sigfillset W E1) as P1.
  pose proof (H_neutral _ _ _ _ _ _ (hk_sys_sigfillset false) Hq E1) as H1.
  destruct (r0 <? 0).
  { apply bind_inv in E0 as (e & w1' & Eg & E0). apply gets_inv in Eg as [-> ->]. apply ret_inv in E0 as [_ ->]. exact H1. }
  apply bind_inv in E0 as ([r1 old] & w2 & E2 & E0). cbv beta iota in E0.
  destruct (signal_mask_set _ _ _ _ _ ltac:(apply P1) E2) as [Q2 _].
  pose proof (H_neutral _ _ _ _ _ _ (hk_signal_mask false _ _) H1 E2) as H2.
  destruct (r1 <? 0). { apply ret_inv in E0 as [_ ->]. exact H2. }
  apply bind_inv in E0 as ([r2 pp] & w3 & E3 & E0). cbv beta iota in E0.
  pose proof (pc_run _ _ _ _ pc_pipe_init ltac:(apply Q2) E3) as P3.
  pose proof (H_neutral _ _ _ _ _ _ (hk_pipe_init false) H2 E3) as H3.
  assert (C3 : w_cur w3 = w_cur w).
  { destruct P3 as (_ & C3 & _). destruct Q2 as (_ & C2 & _). destruct P1 as (_ & C1 & _). congruence. }
  destruct pp as [[prd pwr]|].
  2:{ apply bind_inv in E0 as ([r3 o3] & w4 & E4 & E0). apply ret_inv in E0 as [_ ->].
      exact (H_neutral _ _ _ _ _ _ (hk_signal_mask false _ _) H3 E4). }
  apply bind_inv in E0 as (r3 & w4 & E4 & E0).
  assert (Hk3 : kp (w_cur w3) (fork_child_part prd pwr except ck)) by (rewrite C3; apply kp_fork_child_part, Hkp).
  destruct (sys_fork_spec _ _ _ _ ltac:(apply P3) ltac:(rewrite C3; exact Hpos) Hk3 E4) as [P4 _].
  pose proof (sys_fork_heap _ _ _ _ ltac:(apply P3) ltac:(rewrite C3; exact Hpos) ltac:(apply H3) (hk_fork_child_part prd pwr except ck Hkh) E4) as R4.
  pose proof (hq_hrel _ _ _ _ H3 R4) as H4.
  destruct (r3 <? 0).
  { apply bind_inv in E0 as (e & w4' & Eg & E0). apply gets_inv in Eg as [-> ->]. cbv zeta in E0.
    apply bind_inv in E0 as ([r5 o5] & w5 & E5 & E0).
    pose proof (H_neutral _ _ _ _ _ _ (hk_signal_mask false _ _) H4 E5) as H5.
    apply bind_inv in E0 as (x6 & w6 & E6 & E0). pose proof (H_neutral _ _ _ _ _ _ (hk_pipe_destroy false _) H5 E6) as H6.
    apply bind_inv in E0 as (x7 & w7 & E7 & E0). pose proof (H_neutral _ _ _ _ _ _ (hk_pipe_destroy false _) H6 E7) as H7.
    apply ret_inv in E0 as [_ ->]. exact H7. }
  cbv zeta in E0.
  apply bind_inv in E0 as ([r5 o5] & w5 & E5 & E0).
  pose proof (H_neutral _ _ _ _ _ _ (hk_signal_mask false _ _) H4 E5) as H5.
  apply bind_inv in E0 as (x6 & w6 & E6 & E0). pose proof (H_neutral _ _ _ _ _ _ (hk_pipe_destroy false _) H5 E6) as H6.
  apply bind_inv in E0 as ([q rs] & w7 & E7 & E0). pose proof (H_neutral _ _ _ _ _ _ (hk_read_errpipe false _) H6 E7) as H7.
  cbv beta iota zeta in E0.
  apply bind_inv in E0 as (r8 & w8 & E8 & E0).
  assert (H8 : hq L own w8).
  { destruct (0 <? (if q <? 0 then 0 else decode_int (runs_bytes rs))).
    - apply bind_inv in E8 as ([rw stw] & w8' & Ew & E8).
      pose proof (H_neutral _ _ _ _ _ _ (hk_waitpid_child false _) H7 Ew) as Hw.
      destruct (rw <? 0).
      + apply bind_inv in E8 as (e & w8'' & Eg & E8). apply gets_inv in Eg as [-> ->]. apply ret_inv in E8 as [_ ->]. exact Hw.
      + apply ret_inv in E8 as [_ ->]. exact Hw.
    - apply ret_inv in E8 as [_ ->]. exact H7. }
  apply bind_inv in E0 as (x9 & w9 & E9 & E0). pose proof (H_neutral _ _ _ _ _ _ (hk_pipe_destroy false _) H8 E9) as H9.
  apply ret_inv in E0 as [_ ->]. exact H9.
Qed.

Definition pgown (pg : option (Z * str)) : list Z := match pg with Some (b, _) => [b] | None => [] end.
Definition envown (env : option (Z * list (Z * str))) (base : list Z) : list Z :=
  match env with Some (arr, res) => map fst res ++ arr :: base | None => base end.

(* the common exit block releases the program path and the environment copy *)
Lemma O_finish {A} L prd pwr pg env (v : A) w a w' : hq L (envown env (pgown pg)) w ->
  (pipe_destroy prd;> pipe_destroy pwr;> sys_free (match pg with Some (b, _) => b | None => 0 end);> strv_free env;> ret v) w = Ret a w' ->
  hq L [] w'.
Proof.
  intros Hq E.
  apply bind_inv in E as (u1 & w1 & E1 & E). pose proof (H_neutral _ _ _ _ _ _ (hk_pipe_destroy false _) Hq E1) as H1.
  apply bind_inv in E as (u2 & w2 & E2 & E). pose proof (H_neutral _ _ _ _ _ _ (hk_pipe_destroy false _) H1 E2) as H2.
  apply bind_inv in E as (u3 & w3 & E3 & E).
  assert (H3 : hq L (envown env []) w3).
  { destruct pg as [[b pth]|]; cbn [pgown] in *.
    - (* bring b to the front, free it *)
      assert (Hp : Permutation (envown env [b]) (b :: envown env [])).
      { destruct env as [[arr res]|]; cbn [envown]; [|reflexivity].
        transitivity ((map fst res ++ [arr]) ++ [b]); [rewrite <- app_assoc; reflexivity|].
        symmetry. apply (Permutation_cons_append (map fst res ++ [arr]) b). }
      pose proof (hq_perm _ _ _ _ H2 Hp) as H2'.
      pose proof (H_free _ _ _ _ _ _ H2' (or_intror (or_introl eq_refl)) E3) as H3.
      eapply hq_same; [exact H3|intros x; symmetry; apply drop_head, (hq_head_notin _ _ _ _ H2')|exact (NoDup_app_tail [b] _ ltac:(apply H2'))].
    - pose proof (H_free' _ _ _ _ _ _ H2 (or_introl eq_refl) E3) as H3.
      eapply hq_same; [exact H3| |apply H2]. intros x. symmetry. rewrite memZ_drop.
      destruct (Z.eqb_spec x 0) as [->|]; [|apply andb_true_r].
      destruct (memZ 0 _) eqn:X; [|reflexivity]. destruct H2 as (_ & _ & _ & Ho & _). destruct (Ho 0 X). lia. }
  apply bind_inv in E as (u4 & w4 & E4 & E). apply ret_inv in E as [_ ->].
  eapply O_strv_free; [|exact E4]. destruct env as [[arr res]|]; exact H3.
Qed.

(* process_start gives back every block it takes, whatever fails *)
Lemma process_start_hq L pr argv o ck w r pid w' :
  wf w -> 0 <= w_cur w -> kp (w_cur w) ck -> hk true ck -> hq L [] w ->
  process_start pr argv o ck w = Ret (r, pid) w' -> hq L [] w'.
Proof.
  intros W Hpos Hkp Hkh Hq0 E0.
  unfold process_start in E0. cbv zeta in E0.
  apply bind_inv in E0 as ([r1 pp] & w1 & E1 & E0). cbv beta iota in E0.
  pose proof (pc_run _ _ _ _ pc_pipe_init W E1) as P1.
  pose proof (H_neutral _ _ _ _ _ _ (hk_pipe_init false) Hq0 E1) as H1.
  destruct pp as [[prd pwr]|].
  2:{ exact (O_finish L _ _ None None _ _ _ _ H1 E0). }
  apply bind_inv in E0 as (pg & w2 & E2 & E0).
  assert (P2 : pcpost w1 w2 /\ hq L (pgown pg) w2).
  { destruct argv as [[|a0 av]|].
    - apply ret_inv in E2 as [-> ->]. split; [apply pcpost_refl, P1|exact H1].
    - destruct (isSome (po_wd o) && path_is_relative a0).
      + split; [exact (pc_run _ _ _ _ (pc_path_prepend_cwd _) ltac:(apply P1) E2)|].
        pose proof (O_path_prepend_cwd L [] _ _ _ _ H1 E2) as H2. destruct pg as [[b pth]|]; exact H2.
      + apply bind_inv in E2 as (b & w2' & Eb & E2). apply ret_inv in E2 as [-> ->].
        split; [exact (pc_run _ _ _ _ (pc_heap_alloc _ _ _) ltac:(apply P1) Eb)|].
        destruct (H_alloc _ _ _ _ _ _ _ _ H1 Eb) as [[-> H2]|[Hnz H2]]; [exact H2|].
        destruct (Z.eqb_spec b 0); [contradiction|exact H2].
    - apply ret_inv in E2 as [-> ->]. split; [apply pcpost_refl, P1|exact H1]. }
  destruct P2 as [P2 H2].
  assert (P02 : pcpost w w2) by (eapply pcpost_trans; eassumption).
  match type of E0 with (if ?b then _ else _) _ = _ => destruct b eqn:Epf end.
  { apply bind_inv in E0 as (e & w2' & Eg & E0). apply gets_inv in Eg as [-> ->].
    assert (pg = None) by (destruct argv; [destruct pg; [discriminate|reflexivity]|discriminate]). subst pg.
    exact (O_finish L _ _ None None _ _ _ _ H2 E0). }
  apply bind_inv in E0 as (penv & w2' & Eg & E0). apply gets_inv in Eg as [-> ->].
  apply bind_inv in E0 as (env & w3 & E3 & E0).
  pose proof (pc_run _ _ _ _ (pc_strv_concat _ _) ltac:(apply P02) E3) as P3.
  pose proof (O_strv_concat L (pgown pg) _ _ _ _ _ H2 E3) as H3.
  assert (P03 : pcpost w w3) by (eapply pcpost_trans; eassumption).
  destruct env as [env|].
  2:{ apply bind_inv in E0 as (e & w3' & Eg & E0). apply gets_inv in Eg as [-> ->].
      exact (O_finish L _ _ pg None _ _ _ _ H3 E0). }
  assert (H3' : hq L (envown (Some env) (pgown pg)) w3) by (destruct env as [arr res]; exact H3).
  apply bind_inv in E0 as (r4 & w4 & E4 & E0).
  assert (C3 : w_cur w3 = w_cur w) by apply P03.
  destruct P03 as (W3 & _).
  assert (Hk3 : kp (w_cur w3) (start_child_part prd pwr argv pg (Some env) o ck)) by (rewrite C3; apply kp_start_child_part, Hkp).
  pose proof (process_fork_heap L _ _ _ _ _ _ W3 ltac:(rewrite C3; exact Hpos) Hk3 (hk_start_child_part prd pwr argv pg (Some env) o ck Hkh) H3' E4) as H4.
  destruct (r4 <? 0). { exact (O_finish L _ _ pg (Some env) _ _ _ _ H4 E0). }
  apply bind_inv in E0 as (x5 & w5 & E5 & E0). pose proof (H_neutral _ _ _ _ _ _ (hk_pipe_destroy false _) H4 E5) as H5.
  apply bind_inv in E0 as ([q rs] & w6 & E6 & E0). pose proof (H_neutral _ _ _ _ _ _ (hk_read_errpipe false _) H5 E6) as H6.
  cbv beta iota zeta in E0.
  destruct (0 <? (if q <? 0 then 0 else decode_int (runs_bytes rs))).
  - apply bind_inv in E0 as ([rw stw] & w7 & E7 & E0). pose proof (H_neutral _ _ _ _ _ _ (hk_waitpid_child false _) H6 E7) as H7.
    cbv beta iota in E0. apply bind_inv in E0 as (r8 & w8 & E8 & E0).
    assert (H8 : hq L (envown (Some env) (pgown pg)) w8).
    { destruct (rw <? 0).
      - apply bind_inv in E8 as (e & w8' & Eg & E8). apply gets_inv in Eg as [-> ->]. apply ret_inv in E8 as [_ ->]. exact H7.
      - apply ret_inv in E8 as [_ ->]. exact H7. }
    exact (O_finish L _ _ pg (Some env) _ _ _ _ H8 E0).
  - exact (O_finish L _ _ pg (Some env) _ _ _ _ H6 E0).
Qed.

Lemma hq_start w : w_cur w = w_main w -> 0 < w_next_blk w ->
  (forall id, w_next_blk w <= id -> heap_live id w = false) -> hq (fun id => heap_live id w) [] w.
Proof.
  intros Hmain Hnb Hhw. split; [exact Hmain|]. split; [exact Hnb|]. split; [intros id; rewrite orb_false_r; reflexivity|].
  split; [intros id X; discriminate|]. split; [constructor|exact Hhw].
Qed.
Lemma hq_end L w' : hq L [] w' -> forall id, heap_live id w' = L id.
Proof. intros (_ & _ & Hl & _) id. rewrite Hl. apply orb_false_r. Qed.

Theorem process_start_frees pr argv o ck w r pid w' :
  wf w -> 0 <= w_cur w -> w_cur w = w_main w -> 0 < w_next_blk w ->
  (forall id, w_next_blk w <= id -> heap_live id w = false) ->
  kp (w_cur w) ck -> hk true ck ->
  process_start pr argv o ck w = Ret (r, pid) w' ->
  forall id, heap_live id w' = heap_live id w.
Proof.
  intros W Hpos Hmain Hnb Hhw Hkp Hkh E0.
  exact (hq_end _ _ (process_start_hq _ _ _ _ _ _ _ _ _ W Hpos Hkp Hkh (hq_start w Hmain Hnb Hhw) E0)).
Qed.

(* ---- reproc_start: the remaining calls do not touch the ledger (generated from the pc proofs of ParentSpec) ---- *)
Lemma hk_pipe_nonblocking nm p en : hk nm (pipe_nonblocking p en).
Proof.
  unfold pipe_nonblocking. apply hk_bind; [apply hk_sys_getfl|]. intros r.
  destruct (r <? 0); [apply hk_bind; [apply hk_get_errno|intros e; apply hk_ret]|]. cbn zeta.
  apply hk_bind; [apply hk_sys_setfl|]. intros r2.
  destruct (r2 <? 0); [apply hk_bind; [apply hk_get_errno|intros e; apply hk_ret]|apply hk_ret].
Qed.
Lemma hk_redirect_path nm child stream path : hk nm (redirect_path child stream path).
Proof.
  unfold redirect_path. apply hk_bind; [apply hk_sys_open|]. intros r.
  destruct (r <? 0); [apply hk_bind; [apply hk_get_errno|intros e; apply hk_ret]|apply hk_ret].
Qed.
Lemma hk_redirect_file nm child f : hk nm (redirect_file child f).
Proof.
  unfold redirect_file. apply hk_bind; [apply hk_sys_fileno|]. intros r.
  destruct (r <? 0); [apply hk_bind; [apply hk_get_errno|intros e; apply hk_ret]|apply hk_ret].
Qed.
Lemma hk_redirect_parent nm child stream : hk nm (redirect_parent child stream).
Proof.
  unfold redirect_parent. cbv zeta. destruct (stream_file stream =? 0); [apply hk_ret|].
  apply hk_bind; [apply hk_sys_fileno|]. intros r.
  destruct (r <? 0); [apply hk_bind; [apply hk_get_errno|intros e; apply hk_ret]|].
  apply hk_bind; [apply hk_sys_getfd|]. intros q.
  destruct (q <? 0); [apply hk_bind; [apply hk_get_errno|intros e; apply hk_ret]|apply hk_ret].
Qed.
Lemma hk_redirect_pipe nm parent child stream nb : hk nm (redirect_pipe parent child stream nb).
Proof.
  unfold redirect_pipe. apply hk_bind; [apply hk_pipe_init|]. intros [r [[p0 p1]|]].
  - apply hk_bind; [apply hk_pipe_nonblocking|]. intros r2. destruct (r2 <? 0); [|apply hk_ret].
    apply hk_bind; [apply hk_pipe_destroy|]. intros _. apply hk_bind; [apply hk_pipe_destroy|]. intros _. apply hk_ret.
  - apply hk_bind; [apply hk_pipe_destroy|]. intros _. apply hk_bind; [apply hk_pipe_destroy|]. intros _. apply hk_ret.
Qed.
Lemma hk_redirect_init nm parent child stream rd nb out : hk nm (redirect_init parent child stream rd nb out).
Proof.
  unfold redirect_init. cbv zeta.
  destruct (rd_type rd =? REPROC_REDIRECT_PIPE).
  { apply hk_bind; [apply hk_redirect_pipe|]. intros [[r p] c]. apply hk_ret. }
  destruct (rd_type rd =? REPROC_REDIRECT_PARENT).
  { apply hk_bind; [apply hk_redirect_parent|]. intros [r c].
    apply hk_bind.
    - destruct (r =? REPROC_EPIPE); [|apply hk_ret].
      apply hk_bind; [apply hk_redirect_path|]. intros [r2 c2]. apply hk_ret.
    - intros [[r2 c2] rd2]. destruct (r2 <? 0); apply hk_ret. }
  destruct (rd_type rd =? REPROC_REDIRECT_DISCARD).
  { apply hk_bind; [apply hk_redirect_path|]. intros [r c]. destruct (r <? 0); apply hk_ret. }
  destruct (rd_type rd =? REPROC_REDIRECT_HANDLE); [apply hk_ret|].
  destruct (rd_type rd =? REPROC_REDIRECT_FILE).
  { apply hk_bind; [apply hk_redirect_file|]. intros [r c]. destruct (r <? 0); apply hk_ret. }
  destruct (rd_type rd =? REPROC_REDIRECT_STDOUT); [apply hk_ret|].
  destruct (rd_type rd =? REPROC_REDIRECT_PATH); [|apply hk_ret].
  destruct (rd_path rd) as [path|]; [|apply hk_ret].
  apply hk_bind; [apply hk_redirect_path|]. intros [r c]. destruct (r <? 0); apply hk_ret.
Qed.
Lemma hk_redirect_destroy nm child ty : hk nm (redirect_destroy child ty).
Proof.
  unfold redirect_destroy. destruct (child =? HANDLE_INVALID); [apply hk_ret|].
  destruct (redirect_destroy_closes ty); [|apply hk_ret].
  apply hk_bind; [apply hk_handle_destroy|]. intros _. apply hk_ret.
Qed.
Lemma hk_start_finish nm p r o cin cout cerr cexit : hk nm (start_finish p r o cin cout cerr cexit).
Proof.
  unfold start_finish. apply hk_bind; [apply hk_redirect_destroy|]. intros _.
  apply hk_bind; [apply hk_redirect_destroy|]. intros co. apply hk_bind; [apply hk_redirect_destroy|]. intros ce.
  apply hk_bind. { destruct (r =? 0); [apply hk_ret|]. apply hk_bind; [apply hk_pipe_destroy|]. intros _. apply hk_ret. }
  intros _. destruct (r <? 0).
  - apply hk_bind; [apply hk_pipe_destroy|]. intros i. apply hk_bind; [apply hk_pipe_destroy|]. intros ou.
    apply hk_bind; [apply hk_pipe_destroy|]. intros e. apply hk_bind; [apply hk_pipe_destroy|]. intros x. apply hk_ret.
  - destruct (r =? 0); apply hk_ret.
Qed.
Lemma hk_pipe_write nm p data : hk nm (pipe_write p data).
Proof.
  unfold pipe_write. apply hk_bind; [apply hk_sys_write|]. intros r.
  destruct (r <? 0); [apply hk_bind; [apply hk_get_errno|intros e; apply hk_ret]|apply hk_ret].
Qed.
Lemma hk_input_loop nm fuel pipe src : forall written size, hk nm (input_loop fuel pipe src written size).
Proof.
  induction fuel as [|f IH]; intros written size; cbn [input_loop]; [apply hk_crash|].
  destruct (written <? size); [|apply hk_ret].
  apply hk_bind; [apply hk_pipe_write|]. intros r. destruct (r <? 0); [apply hk_ret|apply IH].
Qed.
Lemma hk_setup_input nm pipe hd src size : hk nm (setup_input pipe hd src size).
Proof.
  unfold setup_input. destruct (negb hd); [apply hk_ret|].
  apply hk_bind; [apply hk_pipe_nonblocking|]. intros r. destruct (r <? 0); [apply hk_ret|].
  apply hk_bind; [apply hk_input_loop|]. intros r2. destruct (r2 <? 0); [apply hk_ret|].
  apply hk_bind; [apply hk_pipe_destroy|]. intros p. apply hk_ret.
Qed.
Lemma hk_now nm : hk nm now.
Proof. unfold now. apply hk_bind; [apply hk_sys_clock|]. intros [s n]. apply hk_ret. Qed.

(* THE THEOREM at the API: whatever reproc_start returns and whatever fails on the way (any fault
   plan, allocation failures at any point included), the caller's heap holds exactly the blocks
   it held before -- the program path copy and the environment copy are always given back *)
Lemma reproc_start_hq L p argv o0 src ck w r p' w' :
  wf w -> 0 <= w_cur w -> hq L [] w ->
  (forall q, kp (w_cur w) (ck q)) -> (forall q, hk true (ck q)) ->
  reproc_start p argv o0 src ck w = Ret (r, p') w' -> hq L [] w'.
Proof.
  intros W Hpos Hq0 Hkp Hkh E.
  unfold reproc_start in E.
  assert (Hsf : forall pp r0 o cin cout cerr cexit w1 a, hq L [] w1 -> start_finish pp r0 o cin cout cerr cexit w1 = Ret a w' -> hq L [] w').
  { intros pp r0 o cin cout cerr cexit w1 a H1 Ef. exact (H_neutral _ _ _ _ _ _ (hk_start_finish false _ _ _ _ _ _ _) H1 Ef). }
  destruct (negb (h_status p =? STATUS_NOT_STARTED)). { apply ret_inv in E as [_ ->]. exact Hq0. }
  destruct (parse_options o0 (argv_form_of argv)) as [o|]; [|exact (Hsf _ _ _ _ _ _ _ _ _ Hq0 E)].
  apply bind_inv in E as ([[[r1 pin] cin] rdi] & w1 & E1 & E). cbv beta iota zeta in E.
  pose proof (pc_run _ _ _ _ (pc_redirect_init _ _ _ _ _ _) W E1) as P1.
  pose proof (H_neutral _ _ _ _ _ _ (hk_redirect_init false _ _ _ _ _ _) Hq0 E1) as H1.
  destruct (r1 <? 0); [exact (Hsf _ _ _ _ _ _ _ _ _ H1 E)|].
  apply bind_inv in E as ([[[r2 pout] cout] rdo] & w2 & E2 & E). cbv beta iota zeta in E.
  pose proof (pcpost_trans _ _ _ P1 (pc_run _ _ _ _ (pc_redirect_init _ _ _ _ _ _) ltac:(apply P1) E2)) as P2.
  pose proof (H_neutral _ _ _ _ _ _ (hk_redirect_init false _ _ _ _ _ _) H1 E2) as H2.
  destruct (r2 <? 0); [exact (Hsf _ _ _ _ _ _ _ _ _ H2 E)|].
  apply bind_inv in E as ([[[r3 perr] cerr] rde] & w3 & E3 & E). cbv beta iota zeta in E.
  pose proof (pcpost_trans _ _ _ P2 (pc_run _ _ _ _ (pc_redirect_init _ _ _ _ _ _) ltac:(apply P2) E3)) as P3.
  pose proof (H_neutral _ _ _ _ _ _ (hk_redirect_init false _ _ _ _ _ _) H2 E3) as H3.
  destruct (r3 <? 0); [exact (Hsf _ _ _ _ _ _ _ _ _ H3 E)|].
  apply bind_inv in E as ([r4 pp] & w4 & E4 & E). cbv beta iota zeta in E.
  pose proof (pcpost_trans _ _ _ P3 (pc_run _ _ _ _ pc_pipe_init ltac:(apply P3) E4)) as P4.
  pose proof (H_neutral _ _ _ _ _ _ (hk_pipe_init false) H3 E4) as H4.
  destruct pp as [[pexit cexit]|]; [|exact (Hsf _ _ _ _ _ _ _ _ _ H4 E)].
  apply bind_inv in E as ([r5 pin5] & w5 & E5 & E). cbv beta iota zeta in E.
  pose proof (pcpost_trans _ _ _ P4 (pc_run _ _ _ _ (pc_setup_input _ _ _ _) ltac:(apply P4) E5)) as P5.
  pose proof (H_neutral _ _ _ _ _ _ (hk_setup_input false _ _ _ _) H4 E5) as H5.
  destruct (r5 <? 0); [exact (Hsf _ _ _ _ _ _ _ _ _ H5 E)|].
  apply bind_inv in E as ([r6 h6] & w6 & E6 & E). cbv beta iota zeta in E.
  assert (C5 : w_cur w5 = w_cur w) by apply P5.
  pose proof P5 as (W5 & _).
  match type of E6 with process_start _ _ _ ?k _ = _ => assert (Hk5 : kp (w_cur w5) k /\ hk true k) end.
  { split.
    - rewrite C5. apply kp_bind; [apply kp_start_finish|]. intros [x pc0]. apply Hkp.
    - apply hk_bind; [apply hk_start_finish|]. intros [x pc0]. apply Hkh. }
  destruct Hk5 as [Hk5 Hh5].
  pose proof (process_start_hq L _ _ _ _ _ _ _ _ W5 ltac:(rewrite C5; exact Hpos) Hk5 Hh5 H5 E6) as H6.
  destruct (r6 <? 0); [exact (Hsf _ _ _ _ _ _ _ _ _ H6 E)|].
  apply bind_inv in E as (dl & w7 & E7 & E).
  assert (H7 : hq L [] w7).
  { destruct (negb (o_deadline _ =? REPROC_INFINITE)).
    - apply bind_inv in E7 as (n & w7' & En & E7). apply ret_inv in E7 as [_ ->].
      exact (H_neutral _ _ _ _ _ _ (hk_now false) H6 En).
    - apply ret_inv in E7 as [_ ->]. exact H6. }
  exact (Hsf _ _ _ _ _ _ _ _ _ H7 E).
Qed.

(* THE THEOREM at the API: whatever reproc_start returns and whatever fails on the way (any fault
   plan, allocation failures at any point included), the caller's heap holds exactly the blocks
   it held before -- the program path copy and the environment copy are always given back *)
Theorem reproc_start_frees p argv o0 src ck w r p' w' :
  wf w -> 0 <= w_cur w -> w_cur w = w_main w -> 0 < w_next_blk w ->
  (forall id, w_next_blk w <= id -> heap_live id w = false) ->
  (forall q, kp (w_cur w) (ck q)) -> (forall q, hk true (ck q)) ->
  reproc_start p argv o0 src ck w = Ret (r, p') w' ->
  forall id, heap_live id w' = heap_live id w.
Proof.
  intros W Hpos Hmain Hnb Hhw Hkp Hkh E.
  exact (hq_end _ _ (reproc_start_hq _ _ _ _ _ _ _ _ _ _ W Hpos (hq_start w Hmain Hnb Hhw) Hkp Hkh E)).
Qed.
