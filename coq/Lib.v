(* Lib.v — the library model: every POSIX-side reproc function over the world,
   following the C text call by call (defects included).  NDEBUG build: ASSERT is a
   no-op.  Definitions only. *)
From Verif Require Export Sys LibPure.
From Verif Require Export Tables_gen.
Local Open Scope Z_scope.

(* struct reproc_t (reproc.c:15-34) + the ledger id of its block *)
Record rp := {
  h_handle : Z;
  h_in : Z; h_out : Z; h_err : Z; h_exit : Z;
  h_status : Z; h_stop : stop_actions; h_deadline : Z; h_nonblocking : bool;
  h_cout : Z; h_cerr : Z;
  h_blk : Z }.

Definition null_stop : stop_actions :=
  {| st_first := {| sa_action := 0; sa_timeout := 0 |};
     st_second := {| sa_action := 0; sa_timeout := 0 |};
     st_third := {| sa_action := 0; sa_timeout := 0 |} |}.

Definition rp_new (blk : Z) : rp :=
  {| h_handle := PROCESS_INVALID; h_in := PIPE_INVALID; h_out := PIPE_INVALID;
     h_err := PIPE_INVALID; h_exit := PIPE_INVALID; h_status := STATUS_NOT_STARTED;
     h_stop := null_stop; h_deadline := REPROC_INFINITE; h_nonblocking := false;
     h_cout := PIPE_INVALID; h_cerr := PIPE_INVALID; h_blk := blk |}.

Definition rp_with_pipes (i o e x : Z) (p : rp) : rp :=
  {| h_handle := h_handle p; h_in := i; h_out := o; h_err := e; h_exit := x;
     h_status := h_status p; h_stop := h_stop p; h_deadline := h_deadline p;
     h_nonblocking := h_nonblocking p; h_cout := h_cout p; h_cerr := h_cerr p; h_blk := h_blk p |}.
Definition rp_with_in (i : Z) (p : rp) := rp_with_pipes i (h_out p) (h_err p) (h_exit p) p.
Definition rp_with_out (o : Z) (p : rp) := rp_with_pipes (h_in p) o (h_err p) (h_exit p) p.
Definition rp_with_err (e : Z) (p : rp) := rp_with_pipes (h_in p) (h_out p) e (h_exit p) p.
Definition rp_with_exit (x : Z) (p : rp) := rp_with_pipes (h_in p) (h_out p) (h_err p) x p.
Definition rp_with_status (s : Z) (p : rp) : rp :=
  {| h_handle := h_handle p; h_in := h_in p; h_out := h_out p; h_err := h_err p; h_exit := h_exit p;
     h_status := s; h_stop := h_stop p; h_deadline := h_deadline p;
     h_nonblocking := h_nonblocking p; h_cout := h_cout p; h_cerr := h_cerr p; h_blk := h_blk p |}.
Definition rp_with_handle (h : Z) (p : rp) : rp :=
  {| h_handle := h; h_in := h_in p; h_out := h_out p; h_err := h_err p; h_exit := h_exit p;
     h_status := h_status p; h_stop := h_stop p; h_deadline := h_deadline p;
     h_nonblocking := h_nonblocking p; h_cout := h_cout p; h_cerr := h_cerr p; h_blk := h_blk p |}.
Definition rp_with_started (st : stop_actions) (dl : Z) (nb : bool) (p : rp) : rp :=
  {| h_handle := h_handle p; h_in := h_in p; h_out := h_out p; h_err := h_err p; h_exit := h_exit p;
     h_status := h_status p; h_stop := st; h_deadline := dl;
     h_nonblocking := nb; h_cout := h_cout p; h_cerr := h_cerr p; h_blk := h_blk p |}.
Definition rp_with_child (co ce : Z) (p : rp) : rp :=
  {| h_handle := h_handle p; h_in := h_in p; h_out := h_out p; h_err := h_err p; h_exit := h_exit p;
     h_status := h_status p; h_stop := h_stop p; h_deadline := h_deadline p;
     h_nonblocking := h_nonblocking p; h_cout := co; h_cerr := ce; h_blk := h_blk p |}.

(* ---- handle.posix.c ---- *)
Definition handle_cloexec (h : Z) (enable : bool) : MW Z :=
  let* r := sys_getfd h in
  if r <? 0 then let* e := get_errno in ret (- e) else
  let v := if enable then Z.lor r FD_CLOEXEC else Z.land r (Z.lnot FD_CLOEXEC) in
  let* r := sys_setfd h v in
  if r <? 0 then let* e := get_errno in ret (- e) else ret 0.

Definition handle_destroy (h : Z) : MW Z :=
  if h =? HANDLE_INVALID then ret HANDLE_INVALID
  else sys_close h ;> ret HANDLE_INVALID.

(* ---- pipe.posix.c ---- *)
Definition pipe_destroy (p : Z) : MW Z := handle_destroy p.

(* returns (r, Some (read, write)) on success; on failure the out-parameters are untouched *)
Definition pipe_init : MW (Z * option (Z * Z)) :=
  let* '(r, a, b) := sys_pipe in
  if r <? 0 then
    let* e := get_errno in
    (* finish: pair still {-1,-1} *)
    pipe_destroy PIPE_INVALID ;> pipe_destroy PIPE_INVALID ;> ret (- e, None)
  else
    let* r := handle_cloexec a true in
    if r <? 0 then pipe_destroy a ;> pipe_destroy b ;> ret (r, None) else
    let* r := handle_cloexec b true in
    if r <? 0 then pipe_destroy a ;> pipe_destroy b ;> ret (r, None) else
    pipe_destroy PIPE_INVALID ;> pipe_destroy PIPE_INVALID ;> ret (r, Some (a, b)).

Definition pipe_nonblocking (p : Z) (enable : bool) : MW Z :=
  let* r := sys_getfl p in
  if r <? 0 then let* e := get_errno in ret (- e) else
  let v := if enable then Z.lor r O_NONBLOCK else Z.land r (Z.lnot O_NONBLOCK) in
  let* r := sys_setfl p v in
  if r <? 0 then let* e := get_errno in ret (- e) else ret 0.

Definition pipe_read (p : Z) (size : Z) : MW (Z * list run) :=
  let* '(r, rs) := sys_read p size in
  if (r =? 0) && (0 <? size) then ret (- EPIPE, [])
  else if r <? 0 then let* e := get_errno in ret (- e, [])
  else ret (r, rs).

Definition pipe_write (p : Z) (data : list run) : MW Z :=
  let* r := sys_write p data in
  if r <? 0 then let* e := get_errno in ret (- e) else ret r.

(* sources: (pipe, interests); returns (r, events) — events are only assigned when
   poll succeeded *)
Definition pipe_poll (sources : list (Z * Z)) (timeout : Z) : MW (Z * option (list Z)) :=
  let* blk := sys_calloc (zlen sources) SIZEOF_POLLFD in
  if blk =? 0 then
    let* e := get_errno in sys_free 0 ;> ret (- e, None)
  else
    let* '(r, rev) := sys_poll sources timeout in
    if r <? 0 then let* e := get_errno in sys_free blk ;> ret (- e, None)
    else sys_free blk ;> ret (r, Some rev).

(* ---- redirect.posix.c / redirect.c ---- *)
Definition stream_file (stream : Z) : Z :=      (* FILE ids: 1 stdin, 2 stdout, 3 stderr; 0 = NULL *)
  if stream =? REPROC_STREAM_IN then 1 else if stream =? REPROC_STREAM_OUT then 2
  else if stream =? REPROC_STREAM_ERR then 3 else 0.

(* each returns (r, child') ; child' = old child on failure *)
Definition redirect_parent (child stream : Z) : MW (Z * Z) :=
  let f := stream_file stream in
  if f =? 0 then ret (- EINVAL, child) else
  let* r := sys_fileno f in
  if r <? 0 then let* e := get_errno in ret ((if e =? EBADF then - EPIPE else - e), child)
  else
    (* fileno does not tell whether the descriptor behind the stream is still open *)
    let* q := sys_getfd r in
    if q <? 0 then let* e := get_errno in ret ((if e =? EBADF then - EPIPE else - e), child)
    else ret (0, r).

Definition open_flags (stream : Z) : Z :=
  Z.lor (Z.lor (if stream =? REPROC_STREAM_IN then O_RDONLY else O_WRONLY) O_CREAT) O_CLOEXEC.

Definition redirect_path (child stream : Z) (path : str) : MW (Z * Z) :=
  let* r := sys_open path (open_flags stream) 416 in   (* 0640 *)
  if r <? 0 then let* e := get_errno in ret (- e, child) else ret (0, r).

Definition redirect_discard (child stream : Z) : MW (Z * Z) := redirect_path child stream dev_null.

Definition redirect_file (child file : Z) : MW (Z * Z) :=
  let* r := sys_fileno file in
  if r <? 0 then let* e := get_errno in ret (- e, child) else ret (0, r).

(* returns (r, parent', child') *)
Definition redirect_pipe (parent child stream : Z) (nonblocking : bool) : MW (Z * Z * Z) :=
  let* '(r, pp) := pipe_init in
  match pp with
  | None => pipe_destroy PIPE_INVALID ;> pipe_destroy PIPE_INVALID ;> ret (r, parent, child)
  | Some (p0, p1) =>
      let* r := pipe_nonblocking (if stream =? REPROC_STREAM_IN then p1 else p0) nonblocking in
      if r <? 0 then pipe_destroy p0 ;> pipe_destroy p1 ;> ret (r, parent, child)
      else ret (r, (if stream =? REPROC_STREAM_IN then p1 else p0),
                   (if stream =? REPROC_STREAM_IN then p0 else p1))
  end.

Definition redirect_init (parent child stream : Z) (rd : redirect) (nonblocking : bool) (out : Z)
  : MW (Z * Z * Z * redirect) :=
  let ty := rd_type rd in
  if ty =? REPROC_REDIRECT_PIPE then
    let* '(r, p, c) := redirect_pipe parent child stream nonblocking in ret (r, p, c, rd)
  else if ty =? REPROC_REDIRECT_PARENT then
    let* '(r, c) := redirect_parent child stream in
    let* '(r, c, rd) := (if r =? REPROC_EPIPE then
                           let* '(r, c) := redirect_discard c stream in
                           (* we own the discard handle: redirect_destroy must close it *)
                           ret (r, c, if 0 <=? r then rd_set_type REPROC_REDIRECT_DISCARD rd else rd)
                         else ret (r, c, rd)) in
    if r <? 0 then ret (r, parent, c, rd) else ret (r, PIPE_INVALID, c, rd)
  else if ty =? REPROC_REDIRECT_DISCARD then
    let* '(r, c) := redirect_discard child stream in
    if r <? 0 then ret (r, parent, c, rd) else ret (r, PIPE_INVALID, c, rd)
  else if ty =? REPROC_REDIRECT_HANDLE then ret (0, PIPE_INVALID, rd_handle rd, rd)
  else if ty =? REPROC_REDIRECT_FILE then
    let* '(r, c) := redirect_file child (rd_file rd) in
    if r <? 0 then ret (r, parent, c, rd) else ret (r, PIPE_INVALID, c, rd)
  else if ty =? REPROC_REDIRECT_STDOUT then ret (0, PIPE_INVALID, out, rd)
  else if ty =? REPROC_REDIRECT_PATH then
    match rd_path rd with
    | Some path =>
        let* '(r, c) := redirect_path child stream path in
        if r <? 0 then ret (r, parent, c, rd) else ret (r, PIPE_INVALID, c, rd)
    | None => ret (REPROC_EINVAL, parent, child, rd)   (* unreachable after parse_options *)
    end
  else ret (REPROC_EINVAL, parent, child, rd).          (* DEFAULT (assert) / out of range *)

(* redirect.c:136-164; which types close comes from the regenerated switch table *)
Definition redirect_destroy (child ty : Z) : MW Z :=
  if child =? HANDLE_INVALID then ret HANDLE_INVALID
  else if redirect_destroy_closes ty then handle_destroy child ;> ret HANDLE_INVALID
  else ret HANDLE_INVALID.

(* ---- strv.c ---- *)
(* blocks of the duplicated strings, in order *)
Fixpoint dup_all (l : list str) (acc : list (Z * str)) : MW (option (list (Z * str))) :=
  match l with
  | [] => ret (Some (rev acc))
  | s :: r =>
      let* b := sys_malloc (zlen s + 1) in
      if b =? 0 then mapM_ (fun bs => sys_free (fst bs)) (rev acc) ;> ret None
      else dup_all r ((b, s) :: acc)
  end.

(* Some (array block, [(block, string)]) or None (= NULL) *)
Definition strv_concat (a : option (list str)) (b : option (list str))
  : MW (option (Z * list (Z * str))) :=
  let la := match a with Some l => l | None => [] end in
  let lb := match b with Some l => l | None => [] end in
  let size := 1 + zlen la + zlen lb in
  let* arr := sys_calloc size SIZEOF_CHARP in
  if arr =? 0 then sys_free 0 ;> ret None else     (* finish: c(0) < size, r NULL: STRV_FOREACH over NULL; free(NULL) *)
  let* d := dup_all (la ++ lb) [] in
  match d with
  | None => sys_free arr ;> ret None
  | Some l => ret (Some (arr, l))
  end.

Definition strv_free (l : option (Z * list (Z * str))) : MW unit :=
  match l with
  | None => sys_free 0
  | Some (arr, ss) => mapM_ (fun bs => sys_free (fst bs)) ss ;> sys_free arr
  end.

(* ---- process.posix.c ---- *)
Definition signal_mask (how : Z) (newset : option (list Z)) : MW (Z * list Z) :=
  let* '(e, old) := sys_sigmask how newset in ret (- e, old).

Definition fill_set : list Z := filter (fun x => negb (x =? 32) && negb (x =? 33)) all_signals.

Fixpoint prepend_loop (fuel : nat) (blk cwd_size path_size : Z) : MW (option (Z * str)) :=
  match fuel with
  | O => fun w => Crash crash_fuel w
  | S f =>
      let* '(r, cwd) := sys_getcwd cwd_size in
      if r =? 0 then ret (Some (blk, cwd)) else
      let* e := get_errno in
      if negb (e =? ERANGE) then sys_free blk ;> ret None else
      let cwd_size := cwd_size + CWD_BUF_SIZE_INCREMENT in
      let* nb := sys_realloc blk (cwd_size + path_size + 1) in
      if nb =? 0 then sys_free blk ;> ret None
      else prepend_loop f nb cwd_size path_size
  end.

(* Some (block, string) or None with errno set *)
Definition path_prepend_cwd (path : str) : MW (option (Z * str)) :=
  let path_size := zlen path in
  let cwd_size := CWD_BUF_SIZE_INCREMENT in
  let* blk := sys_calloc (cwd_size + path_size + 2) 1 in
  if blk =? 0 then ret None else
  let* cl := gets (fun w => zlen (pr_cwd (curp w))) in
  let* r := prepend_loop (Z.to_nat (cl / CWD_BUF_SIZE_INCREMENT) + 2) blk cwd_size path_size in
  match r with
  | None => ret None
  | Some (b, cwd) => ret (Some (b, cwd ++ (if ends_slash cwd then [] else [slash]) ++ path))
  end.

Definition get_max_fd : MW Z :=
  let* '(r, soft) := sys_getrlimit in
  if r <? 0 then let* e := get_errno in ret (- e) else
  if (soft <? 0) || (H_INT_MAX <? soft) then ret H_INT_MAX else ret (soft - 1).

Definition encode_int (v : Z) : list Z :=
  let u := v mod 4294967296 in
  [u mod 256; (u / 256) mod 256; (u / 65536) mod 256; (u / 16777216) mod 256].
Fixpoint runs_bytes (rs : list run) : list Z :=
  match rs with
  | [] => []
  | RLit b :: r => b ++ runs_bytes r
  | RPos _ _ n :: r => repeat 0 (Z.to_nat n) ++ runs_bytes r    (* never happens on an error pipe *)
  end.
(* what a (possibly short) read into [int child_errno = 0] leaves in it *)
Definition decode_int (bs : list Z) : Z :=
  let b i := nth i bs 0 in
  let u := b 0%nat + 256 * b 1%nat + 65536 * b 2%nat + 16777216 * b 3%nat in
  if u <? 2147483648 then u else u - 4294967296.

Fixpoint reset_signals (sigs : list Z) : MW Z :=
  match sigs with
  | [] => ret 0
  | s :: r =>
      let* q := sys_sigaction s 0 in
      let* e := get_errno in
      if (q <? 0) && negb (e =? EINVAL) then ret (- e) else reset_signals r
  end.

Definition close_one (skip : list Z) (i : Z) : MW unit :=
  if memZ i skip then ret tt else
  let* r := sys_getfd i in
  if 0 <=? r then handle_destroy i ;> ret tt else ret tt.

(* child side of process_fork up to its `return 0` (process.posix.c:215-300) *)
Definition fork_child_part (prd pwr : Z) (except : list Z) (k : MW unit) : MW unit :=
  let fail_ (r : Z) : MW unit := sys_write pwr [RLit (encode_int (- r))] ;> sys__exit 1 in
  let errno_r : MW Z := let* e := get_errno in ret (- e) in
  let* r := sys_sigemptyset in
  if r <? 0 then (let* r := errno_r in fail_ r) else
  let* r := reset_signals (seqZ SIGNAL_LOOP_FROM (SIGNAL_LOOP_TO - SIGNAL_LOOP_FROM)) in
  if r <? 0 then fail_ r else
  let* r := sys_sigemptyset in
  if r <? 0 then (let* r := errno_r in fail_ r) else
  let* '(r, _) := signal_mask SIG_SETMASK (Some []) in
  if r <? 0 then fail_ r else
  let* r := get_max_fd in
  if r <? 0 then fail_ r else
  let max_fd := r in
  if MAX_FD_LIMIT <? max_fd then fail_ (- EMFILE) else
  mapM_ (close_one (prd :: pwr :: except)) (seqZ 0 (max_fd + 1)) ;>
  pipe_destroy pwr ;> pipe_destroy prd ;> k.

(* read of the error pipe, retried while interrupted (process.posix.c) *)
Fixpoint read_retry (fuel : nat) (fd : Z) : MW (Z * list run) :=
  match fuel with
  | O => fun w => Crash crash_fuel w
  | S f =>
      let* '(q, rs) := sys_read fd 4 in
      if q <? 0 then
        let* e := get_errno in
        if e =? EINTR then read_retry f fd else ret (q, rs)
      else ret (q, rs)
  end.
Definition read_errpipe (fd : Z) : MW (Z * list run) :=
  let* nf := gets (fun w => length (w_faults w)) in read_retry (S (S nf)) fd.

(* waitpid on a child that has just reported its own failure, retried while interrupted
   (process.posix.c: the do/while loops around waitpid) *)
Fixpoint waitpid_retry (fuel : nat) (pid : Z) : MW (Z * Z) :=
  match fuel with
  | O => fun w => Crash crash_fuel w
  | S f =>
      let* '(r, st) := sys_waitpid pid in
      if r <? 0 then
        let* e := get_errno in
        if e =? EINTR then waitpid_retry f pid else ret (r, st)
      else ret (r, st)
  end.
Definition waitpid_child (pid : Z) : MW (Z * Z) :=
  let* nf := gets (fun w => length (w_faults w)) in waitpid_retry (S (S nf)) pid.

Definition process_fork (except : list Z) (child_k : MW unit) : MW Z :=
  let* r := sys_sigfillset in
  if r <? 0 then let* e := get_errno in ret (- e) else
  let* '(r, old) := signal_mask SIG_SETMASK (Some fill_set) in
  if r <? 0 then ret r else
  let* '(r, pp) := pipe_init in
  match pp with
  | None => let* _ := signal_mask SIG_SETMASK (Some old) in ret r
  | Some (prd, pwr) =>
      let* r := sys_fork (fork_child_part prd pwr except child_k) in
      if r <? 0 then
        let* e := get_errno in
        let r := - e in
        let* _ := signal_mask SIG_SETMASK (Some old) in
        pipe_destroy prd ;> pipe_destroy pwr ;> ret r
      else
        let child := r in
        let* _ := signal_mask SIG_SETMASK (Some old) in
        pipe_destroy pwr ;>
        let* '(q, rs) := read_errpipe prd in
        let child_errno := if q <? 0 then 0 else decode_int (runs_bytes rs) in
        let* r := (if 0 <? child_errno then
                     let* '(r, _) := waitpid_child child in
                     if r <? 0 then let* e := get_errno in ret (- e) else ret (- child_errno)
                   else ret r) in
        pipe_destroy prd ;>
        ret (if r <? 0 then r else child)
  end.

Record process_options := {
  po_env_behavior : Z; po_env_extra : option (list str); po_wd : option str;
  po_in : Z; po_out : Z; po_err : Z; po_exit : Z }.

Definition start_fd_val (o : process_options) (prd pwr : Z) (e : start_fd) : Z :=
  match e with
  | E_in => po_in o | E_out => po_out o | E_err => po_err o | E_exit => po_exit o
  | E_pread => prd | E_pwrite => pwr
  end.

(* first loop: move child ends that are themselves one of 0..2 (but not their own target)
   out of the way; returns (r, redirect[]') *)
Fixpoint child_move_low (l : list (Z * Z)) (n : Z) (acc : list (Z * Z)) : MW (Z * list (Z * Z)) :=
  match l with
  | [] => ret (0, rev acc)
  | (fd, i) :: r =>
      if negb (fd =? i) && (0 <=? fd) && (fd <? n) then
        let* q := sys_dupfd fd n true in
        if q <? 0 then let* e := get_errno in ret (- e, rev acc) else child_move_low r n ((q, i) :: acc)
      else child_move_low r n ((fd, i) :: acc)
  end.

Fixpoint child_redirect (l : list (Z * Z)) : MW Z :=    (* (redirect[i], i) *)
  match l with
  | [] => ret 0
  | (fd, i) :: r =>
      let* q := sys_dup2 fd i in
      if q <? 0 then let* e := get_errno in ret (- e) else
      let* q := (if negb (fd =? i) then handle_cloexec fd true else handle_cloexec i false) in
      if q <? 0 then ret q else child_redirect r
  end.

(* child side of process_start after process_fork returned 0 (process.posix.c:356-425) *)
Definition start_child_part (prd pwr : Z) (argv : option (list str)) (program : option (Z * str))
           (env : option (Z * list (Z * str))) (o : process_options) (k : MW unit) : MW unit :=
  let fail_ (r : Z) : MW unit := sys_write pwr [RLit (encode_int (- r))] ;> sys__exit 1 in
  let redirect := imap (fun i e => (start_fd_val o prd pwr e, Z.of_nat i)) start_redirect in
  let* '(r, redirect) := child_move_low redirect (zlen redirect) [] in
  if r <? 0 then fail_ r else
  let* r := child_redirect redirect in
  if r <? 0 then fail_ r else
  let* r := handle_cloexec (po_exit o) false in
  if r <? 0 then fail_ r else
  let* r := match po_wd o with
            | Some d => let* q := sys_chdir d in
                        if q <? 0 then let* e := get_errno in ret (- e) else ret q
            | None => ret r
            end in
  if r <? 0 then fail_ r else
  set_environ (match env with Some (_, ss) => map snd ss | None => [] end) ;>
  let* r := match argv with
            | Some av =>
                let* q := sys_execvp (match program with Some (_, s) => s | None => [] end) av in
                if q <? 0 then let* e := get_errno in ret (- e) else ret q
            | None => ret r
            end in
  if r <? 0 then fail_ r else
  (* env = NULL *)
  pipe_destroy prd ;> pipe_destroy pwr ;>
  sys_free (match program with Some (b, _) => b | None => 0 end) ;>
  strv_free None ;> k.

(* returns (r, process') *)
Definition process_start (process : Z) (argv : option (list str)) (o : process_options)
           (child_k : MW unit) : MW (Z * Z) :=
  let finish (r : Z) (process : Z) (prd pwr : Z) (program : option (Z * str))
             (env : option (Z * list (Z * str))) : MW (Z * Z) :=
    pipe_destroy prd ;> pipe_destroy pwr ;>
    sys_free (match program with Some (b, _) => b | None => 0 end) ;>
    strv_free env ;>
    ret ((if r <? 0 then r else 1), process) in
  let* '(r, pp) := pipe_init in
  match pp with
  | None => finish r process PIPE_INVALID PIPE_INVALID None None
  | Some (prd, pwr) =>
      let* pg := match argv with
                 | Some (a0 :: _) =>
                     if isSome (po_wd o) && path_is_relative a0 then path_prepend_cwd a0
                     else let* b := sys_strdup a0 in
                          ret (if b =? 0 then None else Some (b, a0))
                 | _ => ret None
                 end in
      let prog_failed := match argv, pg with Some _, None => true | _, _ => false end in
      if prog_failed then
        let* e := get_errno in finish (- e) process prd pwr None None
      else
      let* penv := get_environ in
      let parent := if po_env_behavior o =? REPROC_ENV_EMPTY then None else Some penv in
      let* env := strv_concat parent (po_env_extra o) in
      match env with
      | None => let* e := get_errno in finish (- e) process prd pwr pg None
      | Some _ =>
          let except := map (start_fd_val o prd pwr) start_except in
          let* r := process_fork except (start_child_part prd pwr argv pg env o child_k) in
          if r <? 0 then finish r process prd pwr pg env else
          let child := r in
          let* pwr := pipe_destroy pwr in
          let* '(q, rs) := read_errpipe prd in
          let child_errno := if q <? 0 then 0 else decode_int (runs_bytes rs) in
          if 0 <? child_errno then
            let* '(r, _) := waitpid_child child in
            let* r := (if r <? 0 then let* e := get_errno in ret (- e) else ret (- child_errno)) in
            finish r process prd pwr pg env
          else finish 0 child prd pwr pg env
      end
  end.

Definition process_wait (process : Z) : MW Z :=
  let* '(r, st) := sys_waitpid process in
  if r <? 0 then let* e := get_errno in ret (- e) else ret (parse_status st).
Definition process_terminate (process : Z) : MW Z :=
  let* r := sys_kill process SIGTERM in
  if r <? 0 then let* e := get_errno in ret (- e) else ret 0.
Definition process_kill (process : Z) : MW Z :=
  let* r := sys_kill process SIGKILL in
  if r <? 0 then let* e := get_errno in ret (- e) else ret 0.

(* ---- clock.posix.c ---- *)
Definition now : MW Z :=
  let* '(sec, nsec) := sys_clock in ret (sec * 1000 + nsec / 1000000).

(* ---- reproc.c ---- *)
Definition expiry (timeout deadline : Z) : MW Z :=
  if expiry_needs_clock timeout deadline
  then let* n := now in ret (expiry_pure timeout deadline n)
  else ret (expiry_pure timeout deadline 0).

(* reproc.c:50-83.  returns (r, pipe') *)
Fixpoint input_loop (fuel : nat) (pipe src written size : Z) : MW Z :=
  match fuel with
  | O => fun w => Crash crash_fuel w
  | S f =>
      if written <? size then
        let* r := pipe_write pipe [RPos src written (size - written)] in
        if r <? 0 then ret r else input_loop f pipe src (written + r) size
      else ret 0
  end.
Definition setup_input (pipe : Z) (has_data : bool) (src size : Z) : MW (Z * Z) :=
  if negb has_data then ret (0, pipe) else
  let* r := pipe_nonblocking pipe true in
  if r <? 0 then ret (r, pipe) else
  let* r := input_loop (Z.to_nat (size / pipe_atomic) + 2) pipe src 0 size in
  if r <? 0 then ret (r, pipe) else
  let* p := pipe_destroy pipe in ret (0, p).

Definition reproc_new : MW (option rp) :=
  let* b := sys_malloc SIZEOF_REPROC_T in
  if b =? 0 then ret None else ret (Some (rp_new b)).

Definition o_with_redirects (i ou e : redirect) (x : options) : options :=
  o_with_parsed i ou e (o_deadline x) (o_stop x) x.

Definition argv_form_of (argv : option (list str)) : argv_form :=
  match argv with None => ArgvNull | Some [] => ArgvEmpty | Some _ => ArgvOk end.

(* the common exit block of reproc_start (reproc.c:238-282), run by the parent and —
   in fork mode — also by the child *)
(* in the forked child (r = 0) a child handle that carries one of the numbers 0-2 is one of the
   standard streams process_start has just set up: it is forgotten, not closed (reproc.c finish:) *)
Definition keep_std (r h : Z) : Z := if (r =? 0) && (0 <=? h) && (h <=? 2) then HANDLE_INVALID else h.
Definition start_finish (p : rp) (r : Z) (o : options) (cin cout cerr cexit : Z) : MW (Z * rp) :=
  let cin := keep_std r cin in let cout := keep_std r cout in let cerr := keep_std r cerr in
  redirect_destroy cin (rd_type (o_in o)) ;>
  let* cout := redirect_destroy cout (rd_type (o_out o)) in
  let* cerr := redirect_destroy cerr (rd_type (o_err o)) in
  (if r =? 0 then ret tt else pipe_destroy cexit ;> ret tt) ;>
  if r <? 0 then
    let* i := pipe_destroy (h_in p) in
    let* ou := pipe_destroy (h_out p) in
    let* e := pipe_destroy (h_err p) in
    let* x := pipe_destroy (h_exit p) in
    ret (r, rp_with_handle PROCESS_INVALID (rp_with_pipes i ou e x p))
  else if r =? 0 then
    ret (r, rp_with_status STATUS_IN_CHILD
              (rp_with_handle PROCESS_INVALID
                 (rp_with_pipes PIPE_INVALID PIPE_INVALID PIPE_INVALID PIPE_INVALID p)))
  else ret (r, rp_with_status STATUS_IN_PROGRESS (rp_with_child cout cerr p)).

(* [input_src]: identity of the start-up input buffer; [child_k]: what the caller does in
   the child when start returns 0 there (fork mode) *)
Definition reproc_start (p : rp) (argv : option (list str)) (o0 : options) (input_src : Z)
           (child_k : rp -> MW unit) : MW (Z * rp) :=
  if negb (h_status p =? STATUS_NOT_STARTED) then ret (REPROC_EINVAL, p) else
  match parse_options o0 (argv_form_of argv) with
  | None => start_finish p REPROC_EINVAL o0 HANDLE_INVALID HANDLE_INVALID HANDLE_INVALID PIPE_INVALID
  | Some o =>
      let* '(r, pin, cin, rdi) := redirect_init (h_in p) HANDLE_INVALID REPROC_STREAM_IN (o_in o)
                                                (o_nonblocking o) HANDLE_INVALID in
      let o := o_with_redirects rdi (o_out o) (o_err o) o in
      let p := rp_with_in pin p in
      if r <? 0 then start_finish p r o cin HANDLE_INVALID HANDLE_INVALID PIPE_INVALID else
      let* '(r, pout, cout, rdo) := redirect_init (h_out p) HANDLE_INVALID REPROC_STREAM_OUT (o_out o)
                                                  (o_nonblocking o) HANDLE_INVALID in
      let o := o_with_redirects (o_in o) rdo (o_err o) o in
      let p := rp_with_out pout p in
      if r <? 0 then start_finish p r o cin cout HANDLE_INVALID PIPE_INVALID else
      let* '(r, perr, cerr, rde) := redirect_init (h_err p) HANDLE_INVALID REPROC_STREAM_ERR (o_err o)
                                                  (o_nonblocking o) cout in
      let o := o_with_redirects (o_in o) (o_out o) rde o in
      let p := rp_with_err perr p in
      if r <? 0 then start_finish p r o cin cout cerr PIPE_INVALID else
      let* '(r, pp) := pipe_init in
      match pp with
      | None => start_finish p r o cin cout cerr PIPE_INVALID
      | Some (pexit, cexit) =>
          let p := rp_with_exit pexit p in
          let* '(r, pin) := setup_input (h_in p) (o_input_data o) input_src (o_input_size o) in
          let p := rp_with_in pin p in
          if r <? 0 then start_finish p r o cin cout cerr cexit else
          let po := {| po_env_behavior := o_env_behavior o; po_env_extra := o_env_extra o;
                       po_wd := o_wd o; po_in := cin; po_out := cout; po_err := cerr;
                       po_exit := cexit |} in
          let in_child : MW unit :=
            let* '(_, pc) := start_finish p 0 o cin cout cerr cexit in child_k pc in
          let* '(r, h) := process_start (h_handle p) argv po in_child in
          let p := rp_with_handle h p in
          if r <? 0 then start_finish p r o cin cout cerr cexit else
          (* r > 0 *)
          let* dl := (if negb (o_deadline o =? REPROC_INFINITE)
                      then let* n := now in ret (n + o_deadline o) else ret (h_deadline p)) in
          let p := rp_with_started (o_stop o) dl (o_nonblocking o) p in
          start_finish p r o cin cout cerr cexit
      end
  end.

(* reproc.c:111-140 *)
Fixpoint fed_loop (srcs : list (option rp * Z)) (i : Z) (earliest : Z) (mn : Z) : MW Z :=
  match srcs with
  | [] => ret earliest
  | (None, _) :: r => fed_loop r (i + 1) earliest mn
  | (Some p, _) :: r =>
      let* current := expiry REPROC_INFINITE (h_deadline p) in
      if current =? REPROC_DEADLINE then ret i
      else if current =? REPROC_INFINITE then fed_loop r (i + 1) earliest mn
      else if (mn =? REPROC_INFINITE) || (current <? mn) then fed_loop r (i + 1) i current
      else fed_loop r (i + 1) earliest mn
  end.
Definition find_earliest_deadline (srcs : list (option rp * Z)) : MW Z :=
  fed_loop srcs 0 0 REPROC_INFINITE.

Definition poll_slots (s : option rp * Z) : list (Z * Z) :=
  match s with
  | (None, _) => [(PIPE_INVALID, 0); (PIPE_INVALID, 0); (PIPE_INVALID, 0); (PIPE_INVALID, 0)]
  | (Some p, interests) =>
      let inn := has_bit interests REPROC_EVENT_IN in
      let out := has_bit interests REPROC_EVENT_OUT in
      let err := has_bit interests REPROC_EVENT_ERR in
      let ex := has_bit interests REPROC_EVENT_EXIT
                || (out && negb (h_cout p =? PIPE_INVALID))
                || (err && negb (h_cerr p =? PIPE_INVALID)) in
      [((if inn then h_in p else PIPE_INVALID), PIPE_EVENT_OUT);
       ((if out then h_out p else PIPE_INVALID), PIPE_EVENT_IN);
       ((if err then h_err p else PIPE_INVALID), PIPE_EVENT_IN);
       ((if ex then h_exit p else PIPE_INVALID), PIPE_EVENT_IN)]
  end.

Fixpoint slot_events (slots : list (Z * Z)) (rev : list Z) (k : Z) : Z :=
  match slots, rev with
  | (pipe, _) :: sr, ev :: er =>
      (if negb (pipe =? PIPE_INVALID) && (0 <? ev) then Z.shiftl 1 k else 0)
      + slot_events sr er (k + 1)
  | _, _ => 0
  end.
Fixpoint source_events (srcs : list (option rp * Z)) (rev : list Z) : list Z :=
  match srcs with
  | [] => []
  | s :: r => slot_events (poll_slots s) (firstn 4 rev) 0 :: source_events r (skipn 4 rev)
  end.

Definition set_nth_ev (n : Z) (v : Z) (l : list Z) : list Z :=
  imap (fun i x => if Z.of_nat i =? n then v else x) l.

(* reproc.c:298-458.  returns (r, Some events) when events were assigned *)
Definition reproc_poll (srcs : list (option rp * Z)) (timeout : Z) : MW (Z * option (list Z)) :=
  match srcs with
  | [] => ret (REPROC_EINVAL, None)
  | _ =>
  let* earliest := find_earliest_deadline srcs in
  let deadline := match nth_error srcs (Z.to_nat earliest) with
                  | Some (Some p, _) => h_deadline p | _ => REPROC_INFINITE end in
  let* first := expiry timeout deadline in
  let zeros := map (fun _ => 0) srcs in
  if first =? REPROC_DEADLINE then ret (1, Some (set_nth_ev earliest REPROC_EVENT_DEADLINE zeros)) else
  let num_pipes := zlen srcs * PIPES_PER_SOURCE in
  let* blk := sys_calloc num_pipes SIZEOF_PIPE_EVENT_SOURCE in
  if blk =? 0 then ret (REPROC_ENOMEM, None) else
  let slots := flat_map poll_slots srcs in
  if negb (existsb (fun s => negb (fst s =? PIPE_INVALID)) slots) then
    sys_free blk ;> ret (REPROC_EPIPE, None)
  else
    let* '(r, rev) := pipe_poll slots first in
    match rev with
    | None => sys_free blk ;> ret (r, None)
    | Some rev =>
        if (r =? 0) && negb (first =? timeout) then
          sys_free blk ;> ret (1, Some (set_nth_ev earliest REPROC_EVENT_DEADLINE zeros))
        else if 0 <? r then
          let evs := source_events srcs rev in
          sys_free blk ;> ret (count_nz evs, Some evs)
        else sys_free blk ;> ret (r, Some zeros)
    end
  end.

(* reproc.c:460-501.  stream OUT/ERR checked by the caller of this function (exec_op)
   together with the NULL checks.  returns (r, runs, p') *)
Definition reproc_read (p : rp) (stream : Z) (has_buffer : bool) (size : Z) : MW (Z * list run * rp) :=
  if h_status p =? STATUS_IN_CHILD then ret (REPROC_EINVAL, [], p) else
  if negb ((stream =? REPROC_STREAM_OUT) || (stream =? REPROC_STREAM_ERR)) then ret (REPROC_EINVAL, [], p) else
  if negb has_buffer then ret (REPROC_EINVAL, [], p) else
  let pipe := if stream =? REPROC_STREAM_OUT then h_out p else h_err p in
  if pipe =? PIPE_INVALID then ret (REPROC_EPIPE, [], p) else
  (* child.out / child.err are always invalid on POSIX: the re-poll branch is dead *)
  let* '(r, rs) := pipe_read pipe size in
  if r =? REPROC_EPIPE then
    let* np := pipe_destroy pipe in
    ret (r, rs, if stream =? REPROC_STREAM_OUT then rp_with_out np p else rp_with_err np p)
  else ret (r, rs, p).

(* reproc.c:503-525 *)
Definition reproc_write (p : rp) (has_buffer : bool) (data : list run) : MW (Z * rp) :=
  if h_status p =? STATUS_IN_CHILD then ret (REPROC_EINVAL, p) else
  if negb has_buffer then
    (if runs_len data =? 0 then ret (0, p) else ret (REPROC_EINVAL, p))
  else if h_in p =? PIPE_INVALID then ret (REPROC_EPIPE, p) else
  let* r := pipe_write (h_in p) data in
  if r =? REPROC_EPIPE then let* np := pipe_destroy (h_in p) in ret (r, rp_with_in np p)
  else ret (r, p).

(* reproc.c:527-545 *)
Definition reproc_close (p : rp) (stream : Z) : MW (Z * rp) :=
  if h_status p =? STATUS_IN_CHILD then ret (REPROC_EINVAL, p) else
  if stream =? REPROC_STREAM_IN then let* n := pipe_destroy (h_in p) in ret (0, rp_with_in n p)
  else if stream =? REPROC_STREAM_OUT then let* n := pipe_destroy (h_out p) in ret (0, rp_with_out n p)
  else if stream =? REPROC_STREAM_ERR then let* n := pipe_destroy (h_err p) in ret (0, rp_with_err n p)
  else ret (REPROC_EINVAL, p).

(* reproc.c:547-586 *)
Definition reproc_wait (p : rp) (timeout : Z) : MW (Z * rp) :=
  if h_status p =? STATUS_IN_CHILD then ret (REPROC_EINVAL, p) else
  if h_status p =? STATUS_NOT_STARTED then ret (REPROC_EINVAL, p) else
  if 0 <=? h_status p then ret (h_status p, p) else
  let* timeout :=
    (if timeout =? REPROC_DEADLINE then
       let* t := expiry REPROC_INFINITE (h_deadline p) in
       ret (if t =? REPROC_DEADLINE then 0 else t)
     else ret timeout) in
  let* '(r, _) := pipe_poll [(h_exit p, PIPE_EVENT_IN)] timeout in
  if r <=? 0 then ret ((if r =? 0 then REPROC_ETIMEDOUT else r), p) else
  let* r := process_wait (h_handle p) in
  if r <? 0 then ret (r, p) else
  let* x := pipe_destroy (h_exit p) in
  ret (r, rp_with_status r (rp_with_exit x p)).

Definition reproc_terminate (p : rp) : MW Z :=
  if h_status p =? STATUS_IN_CHILD then ret REPROC_EINVAL else
  if h_status p =? STATUS_NOT_STARTED then ret REPROC_EINVAL else
  if 0 <=? h_status p then ret 0 else process_terminate (h_handle p).
Definition reproc_kill (p : rp) : MW Z :=
  if h_status p =? STATUS_IN_CHILD then ret REPROC_EINVAL else
  if h_status p =? STATUS_NOT_STARTED then ret REPROC_EINVAL else
  if 0 <=? h_status p then ret 0 else process_kill (h_handle p).

(* reproc.c:614-655; the switch comes from the regenerated table *)
Fixpoint stop_loop (actions : list stop_action) (p : rp) (r : Z) : MW (Z * rp) :=
  match actions with
  | [] => ret (r, p)
  | a :: rest =>
      match stop_action_kind (sa_action a) with
      | SK_noop => stop_loop rest p r
      | k =>
          let* r := match k with
                    | SK_wait => ret 0
                    | SK_terminate => reproc_terminate p
                    | SK_kill => reproc_kill p
                    | _ => ret REPROC_EINVAL
                    end in
          if r <? 0 then ret (r, p) else
          let* '(r, p) := reproc_wait p (sa_timeout a) in
          if negb (r =? REPROC_ETIMEDOUT) then ret (r, p) else stop_loop rest p r
      end
  end.
Definition reproc_stop (p : rp) (stop : stop_actions) : MW (Z * rp) :=
  if h_status p =? STATUS_IN_CHILD then ret (REPROC_EINVAL, p) else
  if h_status p =? STATUS_NOT_STARTED then ret (REPROC_EINVAL, p) else
  let stop := parse_stop_actions stop in
  stop_loop (map (fun i => if i =? 0 then st_first stop else if i =? 1 then st_second stop
                           else st_third stop) stop_actions_order) p (-1).

Definition reproc_pid (p : rp) : Z :=
  if h_status p =? STATUS_IN_CHILD then REPROC_EINVAL else
  if h_status p =? STATUS_NOT_STARTED then REPROC_EINVAL else h_handle p.

(* reproc.c:666-690 *)
Definition reproc_destroy (p : rp) : MW unit :=
  let* p := (if h_status p =? STATUS_IN_PROGRESS
             then let* '(_, p') := reproc_stop p (h_stop p) in ret p' else ret p) in
  pipe_destroy (h_in p) ;> pipe_destroy (h_out p) ;> pipe_destroy (h_err p) ;>
  pipe_destroy (h_exit p) ;> pipe_destroy (h_cout p) ;> pipe_destroy (h_cerr p) ;>
  sys_free (h_blk p).

(* ---- drain.c / run.c ---- *)
(* A sink is a script of return values (nth call returns nth value, 0 beyond);
   calls are recorded: (which sink: 0 out / 1 err, stream tag, size, runs). *)
Record sinkst := { sk_out : list Z; sk_err : list Z; sk_calls : list (Z * Z * Z * list run) }.

Definition sink_call (which stream size : Z) (rs : list run) (s : sinkst) : Z * sinkst :=
  if which =? 0 then
    (hd 0 (sk_out s), {| sk_out := tl (sk_out s); sk_err := sk_err s;
                         sk_calls := (which, stream, size, rs) :: sk_calls s |})
  else
    (hd 0 (sk_err s), {| sk_out := sk_out s; sk_err := tl (sk_err s);
                         sk_calls := (which, stream, size, rs) :: sk_calls s |}).

Fixpoint drain_loop (fuel : nat) (p : rp) (s : sinkst) : MW (Z * rp * sinkst) :=
  match fuel with
  | O => fun w => Crash crash_fuel w
  | S f =>
      let* '(r, evs) := reproc_poll [(Some p, Z.lor REPROC_EVENT_OUT REPROC_EVENT_ERR)] REPROC_INFINITE in
      if r <? 0 then ret ((if r =? REPROC_EPIPE then 0 else r), p, s) else
      let events := match evs with Some (e :: _) => e | _ => 0 end in
      if has_bit events REPROC_EVENT_DEADLINE then ret (REPROC_ETIMEDOUT, p, s) else
      let stream := if has_bit events REPROC_EVENT_OUT then REPROC_STREAM_OUT else REPROC_STREAM_ERR in
      let* '(r, rs, p) := reproc_read p stream true 4096 in
      if (r <? 0) && negb (r =? REPROC_EPIPE) then ret (r, p, s) else
      let bytes := if r =? REPROC_EPIPE then 0 else r in
      let '(v, s) := sink_call (if stream =? REPROC_STREAM_OUT then 0 else 1) stream bytes rs s in
      if negb (v =? 0) then ret (v, p, s) else drain_loop f p s
  end.

(* out.function / err.function NULL checks are done by exec_op *)
Definition reproc_drain (fuel : nat) (p : rp) (s : sinkst) : MW (Z * rp * sinkst) :=
  let '(v, s) := sink_call 0 REPROC_STREAM_IN 0 [] s in
  if negb (v =? 0) then ret (v, p, s) else
  let '(v, s) := sink_call 1 REPROC_STREAM_IN 0 [] s in
  if negb (v =? 0) then ret (v, p, s) else
  drain_loop fuel p s.

Definition o_with_parent (b : bool) (x : options) : options :=
  {| o_wd := o_wd x; o_env_behavior := o_env_behavior x; o_env_extra := o_env_extra x;
     o_in := o_in x; o_out := o_out x; o_err := o_err x; o_parent := b; o_discard := o_discard x;
     o_file := o_file x; o_path := o_path x; o_stop := o_stop x; o_deadline := o_deadline x;
     o_input_data := o_input_data x; o_input_size := o_input_size x; o_fork := o_fork x;
     o_nonblocking := o_nonblocking x |}.

(* run.c:20-54 *)
Definition reproc_run_ex (fuel : nat) (argv : option (list str)) (o : options) (input_src : Z)
           (s : sinkst) : MW (Z * sinkst) :=
  if o_fork o then ret (REPROC_EINVAL, s) else
  let* np := reproc_new in
  match np with
  | None => ret (REPROC_ENOMEM, s)      (* reproc_destroy(NULL) *)
  | Some p =>
      let* '(r, p) := reproc_start p argv o input_src (fun _ => fun w => Crash crash_unmodelled w) in
      if r <? 0 then reproc_destroy p ;> ret (r, s) else
      let* '(r, p, s) := reproc_drain fuel p s in
      if r <? 0 then reproc_destroy p ;> ret (r, s) else
      let* '(r, p) := reproc_stop p (o_stop o) in
      reproc_destroy p ;> ret (r, s)
  end.

(* run.c:7-18 *)
Definition reproc_run (fuel : nat) (argv : option (list str)) (o : options) (input_src : Z)
  : MW Z :=
  let o := if negb (o_discard o) && (o_file o =? 0) && negb (isSome (o_path o))
           then o_with_parent true o else o in
  let* '(r, _) := reproc_run_ex fuel argv o input_src {| sk_out := []; sk_err := []; sk_calls := [] |} in
  ret r.
